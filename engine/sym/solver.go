package sym

import (
	"bufio"
	"fmt"
	"io"
	"os"
	"os/exec"
	"strconv"
	"strings"
	"time"
)

type Result int

const (
	Unsat Result = iota
	Sat
	Unknown
)

func (r Result) String() string { return [...]string{"unsat", "sat", "unknown"}[r] }

// Solver drives one long-lived SMT solver process over stdin/stdout.
type Solver struct {
	Name      string
	cmd       *exec.Cmd
	in        io.WriteCloser
	out       *bufio.Reader
	ctx       *Ctx
	defined   map[int]bool
	declVar   map[string]bool
	declUF    map[string]bool
	depth     int
	Queries   int
	Time      time.Duration
	Errors    []string
	log       *bufio.Writer
	logf      *os.File
	TimeoutMS int
	NUnknown  int
	inline    bool
	declLog   []declRec
	MaxQuery  time.Duration
	SlowQueries int
}

// NewSolver starts a solver. kind: "z3", "z3-new", "cvc5", "cvc5-int".
func NewSolver(ctx *Ctx, kind string, timeoutMS int, logPath string) (*Solver, error) {
	var cmd *exec.Cmd
	switch kind {
	case "z3":
		cmd = exec.Command("z3", "-in", "-smt2")
	case "z3-new":
		cmd = exec.Command("z3-new", "-in", "-smt2")
	case "cvc5":
		cmd = exec.Command("cvc5", "--incremental", "--lang=smt2", "--global-declarations", "--produce-models", fmt.Sprintf("--tlimit-per=%d", timeoutMS))
	case "cvc5-int":
		cmd = exec.Command("cvc5", "--incremental", "--lang=smt2", "--global-declarations", "--produce-models", "--solve-bv-as-int=sum", fmt.Sprintf("--tlimit-per=%d", timeoutMS))
	default:
		return nil, fmt.Errorf("unknown solver kind %q", kind)
	}
	in, err := cmd.StdinPipe()
	if err != nil {
		return nil, err
	}
	out, err := cmd.StdoutPipe()
	if err != nil {
		return nil, err
	}
	cmd.Stderr = cmd.Stdout
	if err := cmd.Start(); err != nil {
		return nil, err
	}
	s := &Solver{Name: kind, cmd: cmd, in: in, out: bufio.NewReaderSize(out, 1<<16), ctx: ctx,
		defined: map[int]bool{}, declVar: map[string]bool{}, declUF: map[string]bool{}, TimeoutMS: timeoutMS}
	if logPath != "" {
		f, err := os.Create(logPath)
		if err == nil {
			s.logf = f
			s.log = bufio.NewWriter(f)
		}
	}
	if strings.HasPrefix(kind, "z3") {
		s.send("(set-option :global-declarations true)")
		s.send("(set-option :produce-models true)")
		s.send(fmt.Sprintf("(set-option :timeout %d)", timeoutMS))
	} else {
		s.inline = true
		s.send("(set-logic ALL)")
	}
	return s, nil
}

func (s *Solver) send(line string) {
	if s.log != nil {
		s.log.WriteString(line)
		s.log.WriteByte('\n')
	}
	io.WriteString(s.in, line)
	io.WriteString(s.in, "\n")
}

func (s *Solver) Close() {
	if s.log != nil {
		s.log.Flush()
		s.logf.Close()
	}
	s.in.Close()
	done := make(chan struct{})
	go func() { s.cmd.Wait(); close(done) }()
	select {
	case <-done:
	case <-time.After(2 * time.Second):
		s.cmd.Process.Kill()
	}
}

// define makes sure the term (and everything under it) is known to the solver.
func (s *Solver) define(t *Term) {
	if t.Op == OConst {
		return
	}
	if t.Op == OVar {
		if !s.declVar[t.Name] {
			s.declVar[t.Name] = true
			s.send(fmt.Sprintf("(declare-const |%s| %s)", t.Name, t.S.SMT()))
		}
		return
	}
	if s.defined[t.ID] {
		return
	}
	// iterative post-order to avoid deep recursion
	type fr struct {
		t *Term
		i int
	}
	stack := []fr{{t, 0}}
	for len(stack) > 0 {
		top := &stack[len(stack)-1]
		if top.i < len(top.t.Args) {
			a := top.t.Args[top.i]
			top.i++
			if a.Op == OConst {
				continue
			}
			if a.Op == OVar {
				if !s.declVar[a.Name] {
					s.declVar[a.Name] = true
					s.send(fmt.Sprintf("(declare-const |%s| %s)", a.Name, a.S.SMT()))
				}
				continue
			}
			if !s.defined[a.ID] {
				stack = append(stack, fr{a, 0})
			}
			continue
		}
		x := top.t
		stack = stack[:len(stack)-1]
		if s.defined[x.ID] {
			continue
		}
		if x.Op == OUF && !s.declUF[x.Name] {
			s.declUF[x.Name] = true
			var as []string
			for _, a := range x.Args {
				as = append(as, a.S.SMT())
			}
			s.send(fmt.Sprintf("(declare-fun |%s| (%s) %s)", x.Name, strings.Join(as, " "), x.S.SMT()))
		}
		s.defined[x.ID] = true
		s.send(fmt.Sprintf("(define-fun t%d () %s %s)", x.ID, x.S.SMT(), x.Body()))
	}
}

func (s *Solver) Push() {
	s.send("(push 1)")
	s.depth++
}

func (s *Solver) Pop() {
	s.send("(pop 1)")
	s.depth--
	if s.inline {
		// this solver forgets declarations made inside popped frames: forget them here too
		for i := len(s.declLog) - 1; i >= 0 && s.declLog[i].depth > s.depth; i-- {
			if s.declLog[i].uf {
				delete(s.declUF, s.declLog[i].name)
			} else {
				delete(s.declVar, s.declLog[i].name)
			}
			s.declLog = s.declLog[:i]
		}
	}
}

type declRec struct {
	name  string
	uf    bool
	depth int
}

func (s *Solver) Depth() int { return s.depth }

func (s *Solver) Assert(t *Term) {
	if s.inline {
		s.send("(assert " + s.letExpr(t) + ")")
		return
	}
	s.define(t)
	s.send("(assert " + t.Ref() + ")")
}

// letExpr renders t as a self-contained expression with let-bound sharing (for solvers whose
// define-fun does not survive pop); declarations of variables and functions are sent on the way.
func (s *Solver) letExpr(t *Term) string {
	if t.Op == OConst {
		return t.Ref()
	}
	var order []*Term
	seen := map[int]bool{}
	type fr struct {
		t *Term
		i int
	}
	stack := []fr{{t, 0}}
	for len(stack) > 0 {
		top := &stack[len(stack)-1]
		if top.i < len(top.t.Args) {
			a := top.t.Args[top.i]
			top.i++
			if a.Op == OConst || seen[a.ID] {
				continue
			}
			if a.Op == OVar {
				if !s.declVar[a.Name] {
					s.declVar[a.Name] = true
					s.declLog = append(s.declLog, declRec{a.Name, false, s.depth})
					s.send(fmt.Sprintf("(declare-const |%s| %s)", a.Name, a.S.SMT()))
				}
				continue
			}
			stack = append(stack, fr{a, 0})
			continue
		}
		x := top.t
		stack = stack[:len(stack)-1]
		if seen[x.ID] {
			continue
		}
		seen[x.ID] = true
		if x.Op == OVar {
			if !s.declVar[x.Name] {
				s.declVar[x.Name] = true
				s.declLog = append(s.declLog, declRec{x.Name, false, s.depth})
				s.send(fmt.Sprintf("(declare-const |%s| %s)", x.Name, x.S.SMT()))
			}
			continue
		}
		if x.Op == OUF && !s.declUF[x.Name] {
			s.declUF[x.Name] = true
			s.declLog = append(s.declLog, declRec{x.Name, true, s.depth})
			var as []string
			for _, a := range x.Args {
				as = append(as, a.S.SMT())
			}
			s.send(fmt.Sprintf("(declare-fun |%s| (%s) %s)", x.Name, strings.Join(as, " "), x.S.SMT()))
		}
		order = append(order, x)
	}
	if len(order) == 0 {
		return t.Ref()
	}
	var sb strings.Builder
	n := 0
	for _, x := range order[:len(order)-1] {
		fmt.Fprintf(&sb, "(let ((t%d %s)) ", x.ID, x.Body())
		n++
	}
	sb.WriteString(order[len(order)-1].Body())
	for i := 0; i < n; i++ {
		sb.WriteByte(')')
	}
	return sb.String()
}

func (s *Solver) readLine() (string, error) {
	line, err := s.out.ReadString('\n')
	return strings.TrimSpace(line), err
}

// Check runs check-sat on the current stack.
func (s *Solver) Check() Result {
	start := time.Now()
	s.send("(check-sat)")
	if s.log != nil {
		s.log.Flush()
	}
	s.Queries++
	defer func() {
		d := time.Since(start)
		s.Time += d
		if d > s.MaxQuery {
			s.MaxQuery = d
		}
		if d > 200*time.Millisecond {
			s.SlowQueries++
			if s.log != nil {
				s.log.WriteString(fmt.Sprintf("; SLOW %v\n", d))
			}
		}
	}()
	hadErr := false
	for {
		line, err := s.readLine()
		if err != nil {
			s.Errors = append(s.Errors, "solver died: "+err.Error())
			s.NUnknown++
			return Unknown
		}
		switch {
		case (line == "sat" || line == "unsat") && hadErr:
			s.NUnknown++
			return Unknown
		case line == "sat":
			return Sat
		case line == "unsat":
			return Unsat
		case line == "unknown" || line == "timeout":
			s.NUnknown++
			return Unknown
		case line == "":
			continue
		case strings.HasPrefix(line, "(error"):
			s.Errors = append(s.Errors, line)
			hadErr = true
			// keep reading: z3 still prints an answer after the error; it is
			// consumed and reported as unknown.
			continue
		default:
			// unexpected output (e.g. warning)
			if strings.Contains(line, "error") {
				s.Errors = append(s.Errors, line)
			}
			continue
		}
	}
}

// CheckAssuming checks (stack ∧ t) without leaving anything on the stack.
func (s *Solver) CheckWith(t *Term) Result {
	s.Push()
	s.Assert(t)
	r := s.Check()
	s.Pop()
	return r
}

// Values returns model values of the given terms after a Sat answer.
func (s *Solver) Values(ts []*Term) (map[int]uint64, error) {
	res := map[int]uint64{}
	if len(ts) == 0 {
		return res, nil
	}
	if !s.inline {
		for _, t := range ts {
			s.define(t)
		}
	}
	// pipeline: send every get-value first, then read the replies in order
	for _, t := range ts {
		q := t.Ref()
		if s.inline {
			q = s.letExpr(t)
		}
		if t.S.K == KFP {
			// ask for the IEEE bits through a BV view: z3 supports fp.to_ieee_bv
			q = "(fp.to_ieee_bv " + q + ")"
		}
		s.send("(get-value (" + q + "))")
	}
	if s.log != nil {
		s.log.Flush()
	}
	var firstErr error
	for _, t := range ts {
		txt, err := s.readSexp()
		if err != nil {
			return nil, err
		}
		if strings.HasPrefix(txt, "(error") {
			s.Errors = append(s.Errors, txt)
			if firstErr == nil {
				firstErr = fmt.Errorf("get-value: %s", txt)
			}
			continue
		}
		v, err := parseValue(txt)
		if err != nil {
			if firstErr == nil {
				firstErr = fmt.Errorf("parse %q: %v", txt, err)
			}
			continue
		}
		res[t.ID] = v
	}
	if firstErr != nil {
		return nil, firstErr
	}
	return res, nil
}

func (s *Solver) readSexp() (string, error) {
	var sb strings.Builder
	depth := 0
	started := false
	for {
		b, err := s.out.ReadByte()
		if err != nil {
			return sb.String(), err
		}
		if !started {
			if b == '(' {
				started = true
			} else if b == ' ' || b == '\n' || b == '\r' || b == '\t' {
				continue
			} else {
				// atom line
				rest, _ := s.out.ReadString('\n')
				return string(b) + strings.TrimSpace(rest), nil
			}
		}
		sb.WriteByte(b)
		if b == '|' {
			// quoted symbol: copy through
			for {
				c, err := s.out.ReadByte()
				if err != nil {
					return sb.String(), err
				}
				sb.WriteByte(c)
				if c == '|' {
					break
				}
			}
			continue
		}
		if b == '(' {
			depth++
		} else if b == ')' {
			depth--
			if depth == 0 {
				return sb.String(), nil
			}
		}
	}
}

// parseValue extracts the value from "((expr value))".
func parseValue(txt string) (uint64, error) {
	// the value is the last token sequence before the final "))"
	t := strings.TrimSpace(txt)
	t = strings.TrimSuffix(t, "))")
	// find value start: after the expression. Expression may contain spaces/parens; value forms:
	// #x..., #b..., true, false, (_ bvN W), (fp ...)
	if i := strings.LastIndex(t, "#x"); i >= 0 && !strings.Contains(t[i:], " ") {
		return strconv.ParseUint(t[i+2:], 16, 64)
	}
	if i := strings.LastIndex(t, "#b"); i >= 0 && !strings.Contains(t[i:], " ") {
		return strconv.ParseUint(t[i+2:], 2, 64)
	}
	if strings.HasSuffix(t, " true") {
		return 1, nil
	}
	if strings.HasSuffix(t, " false") {
		return 0, nil
	}
	if i := strings.LastIndex(t, "(_ bv"); i >= 0 {
		f := strings.Fields(t[i+5:])
		return strconv.ParseUint(f[0], 10, 64)
	}
	return 0, fmt.Errorf("unrecognised value")
}

// Script support: render a self-contained SMT-LIB script for a set of assertions
// (used for one-shot queries on a second solver).
func (c *Ctx) Script(asserts []*Term, logic string) string {
	var sb strings.Builder
	if logic != "" {
		fmt.Fprintf(&sb, "(set-logic %s)\n", logic)
	}
	defined := map[int]bool{}
	declared := map[string]bool{}
	var walk func(t *Term)
	walk = func(t *Term) {
		if t.Op == OConst || defined[t.ID] {
			return
		}
		if t.Op == OVar {
			if !declared[t.Name] {
				declared[t.Name] = true
				fmt.Fprintf(&sb, "(declare-const |%s| %s)\n", t.Name, t.S.SMT())
			}
			return
		}
		for _, a := range t.Args {
			walk(a)
		}
		if t.Op == OUF && !declared["uf:"+t.Name] {
			declared["uf:"+t.Name] = true
			var as []string
			for _, a := range t.Args {
				as = append(as, a.S.SMT())
			}
			fmt.Fprintf(&sb, "(declare-fun |%s| (%s) %s)\n", t.Name, strings.Join(as, " "), t.S.SMT())
		}
		defined[t.ID] = true
		fmt.Fprintf(&sb, "(define-fun t%d () %s %s)\n", t.ID, t.S.SMT(), t.Body())
	}
	for _, a := range asserts {
		walk(a)
		fmt.Fprintf(&sb, "(assert %s)\n", a.Ref())
	}
	sb.WriteString("(check-sat)\n")
	return sb.String()
}

// RunScript runs a one-shot script on the given solver command line and returns the verdict.
func RunScript(script string, timeout time.Duration, argv ...string) (Result, string) {
	cmd := exec.Command(argv[0], argv[1:]...)
	cmd.Stdin = strings.NewReader(script)
	done := make(chan struct{})
	var out []byte
	var err error
	go func() { out, err = cmd.CombinedOutput(); close(done) }()
	select {
	case <-done:
	case <-time.After(timeout):
		if cmd.Process != nil {
			cmd.Process.Kill()
		}
		<-done
		return Unknown, "timeout"
	}
	_ = err
	txt := strings.TrimSpace(string(out))
	if strings.Contains(txt, "(error") {
		return Unknown, txt
	}
	lines := strings.Split(txt, "\n")
	last := strings.TrimSpace(lines[len(lines)-1])
	switch last {
	case "sat":
		return Sat, txt
	case "unsat":
		return Unsat, txt
	}
	return Unknown, txt
}
