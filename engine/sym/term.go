// Package sym implements hash-consed SMT terms over bit-vectors, booleans and
// float64 with constant folding, and their SMT-LIB2 rendering.
package sym

import (
	"fmt"
	"math"
	"math/bits"
	"strconv"
	"strings"
)

type Kind uint8

const (
	KBool Kind = iota
	KBV
	KFP // float64
)

type Sort struct {
	K Kind
	W int // bit width for KBV
}

var Bool = Sort{KBool, 0}
var FP64 = Sort{KFP, 64}

func BV(w int) Sort { return Sort{KBV, w} }

func (s Sort) SMT() string {
	switch s.K {
	case KBool:
		return "Bool"
	case KBV:
		return fmt.Sprintf("(_ BitVec %d)", s.W)
	default:
		return "(_ FloatingPoint 11 53)"
	}
}

type Op uint8

const (
	OConst Op = iota
	OVar
	ONot
	OAnd
	OOr
	OIte
	OEq
	OAdd
	OSub
	OMul
	OUDiv
	OSDiv
	OURem
	OSRem
	OBAnd
	OBOr
	OBXor
	OShl
	OLShr
	OAShr
	ONeg
	OBNot
	OULT
	OULE
	OSLT
	OSLE
	OExtract
	OZExt
	OSExt
	OConcat
	OUF
	// floating point
	OFAdd
	OFSub
	OFMul
	OFDiv
	OFNeg
	OFLt
	OFLe
	OFEq // IEEE equality
	OFIsNaN
	OFFromBits // BV64 -> FP (reinterpret)
	OFFromSInt // signed BV -> FP
	OFFromUInt
	OFToSInt // FP -> signed BV (round toward zero), aux0 = width
	OFToUInt
)

var opNames = map[Op]string{
	ONot: "not", OAnd: "and", OOr: "or", OIte: "ite", OEq: "=",
	OAdd: "bvadd", OSub: "bvsub", OMul: "bvmul", OUDiv: "bvudiv", OSDiv: "bvsdiv", OURem: "bvurem", OSRem: "bvsrem",
	OBAnd: "bvand", OBOr: "bvor", OBXor: "bvxor", OShl: "bvshl", OLShr: "bvlshr", OAShr: "bvashr",
	ONeg: "bvneg", OBNot: "bvnot", OULT: "bvult", OULE: "bvule", OSLT: "bvslt", OSLE: "bvsle", OConcat: "concat",
	OFAdd: "fp.add RNE", OFSub: "fp.sub RNE", OFMul: "fp.mul RNE", OFDiv: "fp.div RNE", OFNeg: "fp.neg",
	OFLt: "fp.lt", OFLe: "fp.leq", OFEq: "fp.eq", OFIsNaN: "fp.isNaN",
}

type Term struct {
	ID   int
	Op   Op
	S    Sort
	Args []*Term
	C    uint64 // constant value (BV: zero-extended bits; Bool: 0/1; FP: IEEE bits)
	Name string // var / UF name
	A0   int    // extract hi / extension amount / conversion width
	A1   int    // extract lo
	// VarSeq is the creation sequence number of an input variable (for replay order).
}

func (t *Term) IsConst() bool { return t.Op == OConst }
func (t *Term) IsTrue() bool  { return t.Op == OConst && t.S.K == KBool && t.C == 1 }
func (t *Term) IsFalse() bool { return t.Op == OConst && t.S.K == KBool && t.C == 0 }

// Ctx owns the hash-consing table. One per worker.
type Ctx struct {
	tab    map[string]*Term
	terms  []*Term
	True   *Term
	False  *Term
	UFs    map[string]string // name -> declaration
	UFList []string
}

func NewCtx() *Ctx {
	c := &Ctx{tab: map[string]*Term{}, UFs: map[string]string{}}
	c.True = c.BoolConst(true)
	c.False = c.BoolConst(false)
	return c
}

func (c *Ctx) NumTerms() int { return len(c.terms) }

func (c *Ctx) mk(op Op, s Sort, cv uint64, name string, a0, a1 int, args ...*Term) *Term {
	var sb strings.Builder
	sb.Grow(32)
	sb.WriteByte(byte(op))
	sb.WriteByte(byte(s.K))
	sb.WriteString(strconv.Itoa(s.W))
	sb.WriteByte(':')
	if op == OConst {
		sb.WriteString(strconv.FormatUint(cv, 16))
	}
	if name != "" {
		sb.WriteString(name)
		sb.WriteByte(':')
	}
	if a0 != 0 || a1 != 0 {
		sb.WriteString(strconv.Itoa(a0))
		sb.WriteByte(',')
		sb.WriteString(strconv.Itoa(a1))
		sb.WriteByte(':')
	}
	for _, a := range args {
		sb.WriteString(strconv.Itoa(a.ID))
		sb.WriteByte(',')
	}
	k := sb.String()
	if t, ok := c.tab[k]; ok {
		return t
	}
	t := &Term{ID: len(c.terms), Op: op, S: s, C: cv, Name: name, A0: a0, A1: a1}
	if len(args) > 0 {
		t.Args = append([]*Term(nil), args...)
	}
	c.terms = append(c.terms, t)
	c.tab[k] = t
	return t
}

func mask(w int) uint64 {
	if w >= 64 {
		return ^uint64(0)
	}
	return (uint64(1) << uint(w)) - 1
}

func sext(v uint64, w int) int64 {
	if w >= 64 {
		return int64(v)
	}
	sh := uint(64 - w)
	return int64(v<<sh) >> sh
}

func (c *Ctx) BoolConst(b bool) *Term {
	if b {
		return c.mk(OConst, Bool, 1, "", 0, 0)
	}
	return c.mk(OConst, Bool, 0, "", 0, 0)
}

func (c *Ctx) BVConst(v uint64, w int) *Term {
	return c.mk(OConst, BV(w), v&mask(w), "", 0, 0)
}

func (c *Ctx) FPConst(f float64) *Term {
	return c.mk(OConst, FP64, math.Float64bits(f), "", 0, 0)
}

func (c *Ctx) Var(name string, s Sort) *Term {
	return c.mk(OVar, s, 0, name, 0, 0)
}

// SignedVal returns the constant's value as signed.
func (t *Term) SignedVal() int64 { return sext(t.C, t.S.W) }
func (t *Term) Float() float64   { return math.Float64frombits(t.C) }

func (c *Ctx) Not(a *Term) *Term {
	if a.IsConst() {
		return c.BoolConst(a.C == 0)
	}
	if a.Op == ONot {
		return a.Args[0]
	}
	return c.mk(ONot, Bool, 0, "", 0, 0, a)
}

func (c *Ctx) And(xs ...*Term) *Term {
	var out []*Term
	for _, x := range xs {
		if x.IsConst() {
			if x.C == 0 {
				return c.False
			}
			continue
		}
		if x.Op == OAnd {
			out = append(out, x.Args...)
			continue
		}
		out = append(out, x)
	}
	out = dedup(out)
	switch len(out) {
	case 0:
		return c.True
	case 1:
		return out[0]
	}
	return c.mk(OAnd, Bool, 0, "", 0, 0, out...)
}

func dedup(xs []*Term) []*Term {
	if len(xs) < 2 {
		return xs
	}
	seen := map[int]bool{}
	out := xs[:0:0]
	for _, x := range xs {
		if !seen[x.ID] {
			seen[x.ID] = true
			out = append(out, x)
		}
	}
	return out
}

func (c *Ctx) Or(xs ...*Term) *Term {
	var out []*Term
	for _, x := range xs {
		if x.IsConst() {
			if x.C == 1 {
				return c.True
			}
			continue
		}
		if x.Op == OOr {
			out = append(out, x.Args...)
			continue
		}
		out = append(out, x)
	}
	out = dedup(out)
	switch len(out) {
	case 0:
		return c.False
	case 1:
		return out[0]
	}
	return c.mk(OOr, Bool, 0, "", 0, 0, out...)
}

func (c *Ctx) Implies(a, b *Term) *Term { return c.Or(c.Not(a), b) }

func (c *Ctx) Ite(cond, a, b *Term) *Term {
	if cond.IsConst() {
		if cond.C == 1 {
			return a
		}
		return b
	}
	if a == b {
		return a
	}
	if a.S.K == KBool {
		if a.IsConst() && b.IsConst() {
			if a.C == 1 {
				return cond
			}
			return c.Not(cond)
		}
		if a.IsTrue() {
			return c.Or(cond, b)
		}
		if a.IsFalse() {
			return c.And(c.Not(cond), b)
		}
		if b.IsTrue() {
			return c.Or(c.Not(cond), a)
		}
		if b.IsFalse() {
			return c.And(cond, a)
		}
	}
	return c.mk(OIte, a.S, 0, "", 0, 0, cond, a, b)
}

func (c *Ctx) Eq(a, b *Term) *Term {
	if a.S != b.S {
		panic(fmt.Sprintf("sym.Eq: sort mismatch %v vs %v", a.S, b.S))
	}
	if a == b && a.S.K != KFP {
		return c.True
	}
	if a.IsConst() && b.IsConst() && a.S.K != KFP {
		return c.BoolConst(a.C == b.C)
	}
	if a.S.K == KFP {
		// Go == on floats is IEEE equality
		return c.fcmp(OFEq, a, b)
	}
	if a.S.K == KBool {
		if a.IsConst() {
			if a.C == 1 {
				return b
			}
			return c.Not(b)
		}
		if b.IsConst() {
			if b.C == 1 {
				return a
			}
			return c.Not(a)
		}
	}
	if a.ID > b.ID {
		a, b = b, a
	}
	// ite(c, k1, k2) == k  simplification
	if b.Op == OIte && a.IsConst() && b.Args[1].IsConst() && b.Args[2].IsConst() {
		return c.Ite(b.Args[0], c.Eq(a, b.Args[1]), c.Eq(a, b.Args[2]))
	}
	if a.Op == OIte && b.IsConst() && a.Args[1].IsConst() && a.Args[2].IsConst() {
		return c.Ite(a.Args[0], c.Eq(b, a.Args[1]), c.Eq(b, a.Args[2]))
	}
	return c.mk(OEq, Bool, 0, "", 0, 0, a, b)
}

// BitsEq is structural equality (for FP: same bits modulo NaN) - used by "same value" oracles.
func (c *Ctx) Ne(a, b *Term) *Term { return c.Not(c.Eq(a, b)) }

func (c *Ctx) bin(op Op, a, b *Term) *Term {
	if a.S != b.S {
		panic(fmt.Sprintf("sym.bin %v: sort mismatch %v vs %v", opNames[op], a.S, b.S))
	}
	w := a.S.W
	if a.IsConst() && b.IsConst() {
		x, y := a.C, b.C
		var r uint64
		ok := true
		switch op {
		case OAdd:
			r = x + y
		case OSub:
			r = x - y
		case OMul:
			r = x * y
		case OUDiv:
			if y == 0 {
				r = mask(w)
			} else {
				r = x / y
			}
		case OURem:
			if y == 0 {
				r = x
			} else {
				r = x % y
			}
		case OSDiv:
			sx, sy := sext(x, w), sext(y, w)
			if sy == 0 {
				if sx < 0 {
					r = 1
				} else {
					r = mask(w)
				}
			} else if sy == -1 {
				r = uint64(-sx)
			} else {
				r = uint64(sx / sy)
			}
		case OSRem:
			sx, sy := sext(x, w), sext(y, w)
			if sy == 0 {
				r = x
			} else if sy == -1 {
				r = 0
			} else {
				r = uint64(sx % sy)
			}
		case OBAnd:
			r = x & y
		case OBOr:
			r = x | y
		case OBXor:
			r = x ^ y
		case OShl:
			if y >= uint64(w) {
				r = 0
			} else {
				r = x << y
			}
		case OLShr:
			if y >= uint64(w) {
				r = 0
			} else {
				r = x >> y
			}
		case OAShr:
			sx := sext(x, w)
			if y >= uint64(w) {
				if sx < 0 {
					r = mask(w)
				} else {
					r = 0
				}
			} else {
				r = uint64(sx >> y)
			}
		default:
			ok = false
		}
		if ok {
			return c.BVConst(r, w)
		}
	}
	// identities
	switch op {
	case OAdd:
		if a.IsConst() && a.C == 0 {
			return b
		}
		if b.IsConst() && b.C == 0 {
			return a
		}
		// (x + k1) + k2
		if b.IsConst() && a.Op == OAdd && a.Args[1].IsConst() {
			return c.bin(OAdd, a.Args[0], c.BVConst(a.Args[1].C+b.C, w))
		}
		if a.IsConst() {
			a, b = b, a
		}
	case OSub:
		if b.IsConst() && b.C == 0 {
			return a
		}
		if a == b {
			return c.BVConst(0, w)
		}
		if b.IsConst() {
			return c.bin(OAdd, a, c.BVConst(-b.C, w))
		}
	case OMul:
		if a.IsConst() {
			a, b = b, a
		}
		if b.IsConst() {
			if b.C == 0 {
				return b
			}
			if b.C == 1 {
				return a
			}
		}
	case OBAnd:
		if a.IsConst() {
			a, b = b, a
		}
		if b.IsConst() {
			if b.C == 0 {
				return b
			}
			if b.C == mask(w) {
				return a
			}
		}
		if a == b {
			return a
		}
	case OBOr:
		if a.IsConst() {
			a, b = b, a
		}
		if b.IsConst() {
			if b.C == 0 {
				return a
			}
			if b.C == mask(w) {
				return b
			}
		}
		if a == b {
			return a
		}
	case OBXor:
		if a.IsConst() {
			a, b = b, a
		}
		if b.IsConst() && b.C == 0 {
			return a
		}
		if a == b {
			return c.BVConst(0, w)
		}
	case OShl, OLShr, OAShr:
		if b.IsConst() && b.C == 0 {
			return a
		}
		// (x >> k1) >> k2 = x >> (k1+k2); same for <<
		if (op == OShl || op == OLShr) && b.IsConst() && a.Op == op && a.Args[1].IsConst() {
			k := a.Args[1].C + b.C
			if k >= uint64(w) {
				return c.BVConst(0, w)
			}
			return c.bin(op, a.Args[0], c.BVConst(k, w))
		}
		if b.IsConst() && b.C >= uint64(w) && op != OAShr {
			return c.BVConst(0, w)
		}
		// shift of zero-extended byte etc: (zext x) >> k with k >= origwidth => 0
		if op == OLShr && b.IsConst() && a.Op == OZExt && b.C >= uint64(a.Args[0].S.W) {
			return c.BVConst(0, w)
		}
	case OUDiv, OURem:
		if b.IsConst() && b.C == 1 {
			if op == OUDiv {
				return a
			}
			return c.BVConst(0, w)
		}
	}
	return c.mk(op, a.S, 0, "", 0, 0, a, b)
}

func (c *Ctx) Add(a, b *Term) *Term  { return c.bin(OAdd, a, b) }
func (c *Ctx) Sub(a, b *Term) *Term  { return c.bin(OSub, a, b) }
func (c *Ctx) Mul(a, b *Term) *Term  { return c.bin(OMul, a, b) }
func (c *Ctx) UDiv(a, b *Term) *Term { return c.bin(OUDiv, a, b) }
func (c *Ctx) SDiv(a, b *Term) *Term { return c.bin(OSDiv, a, b) }
func (c *Ctx) URem(a, b *Term) *Term { return c.bin(OURem, a, b) }
func (c *Ctx) SRem(a, b *Term) *Term { return c.bin(OSRem, a, b) }
func (c *Ctx) BAnd(a, b *Term) *Term { return c.bin(OBAnd, a, b) }
func (c *Ctx) BOr(a, b *Term) *Term  { return c.bin(OBOr, a, b) }
func (c *Ctx) BXor(a, b *Term) *Term { return c.bin(OBXor, a, b) }
func (c *Ctx) Shl(a, b *Term) *Term  { return c.bin(OShl, a, b) }
func (c *Ctx) LShr(a, b *Term) *Term { return c.bin(OLShr, a, b) }
func (c *Ctx) AShr(a, b *Term) *Term { return c.bin(OAShr, a, b) }

func (c *Ctx) Neg(a *Term) *Term {
	if a.IsConst() {
		return c.BVConst(-a.C, a.S.W)
	}
	return c.mk(ONeg, a.S, 0, "", 0, 0, a)
}

func (c *Ctx) BNot(a *Term) *Term {
	if a.IsConst() {
		return c.BVConst(^a.C, a.S.W)
	}
	if a.Op == OBNot {
		return a.Args[0]
	}
	return c.mk(OBNot, a.S, 0, "", 0, 0, a)
}

func (c *Ctx) cmp(op Op, a, b *Term) *Term {
	if a.S != b.S {
		panic(fmt.Sprintf("sym.cmp: sort mismatch %v vs %v", a.S, b.S))
	}
	w := a.S.W
	if a.IsConst() && b.IsConst() {
		switch op {
		case OULT:
			return c.BoolConst(a.C < b.C)
		case OULE:
			return c.BoolConst(a.C <= b.C)
		case OSLT:
			return c.BoolConst(sext(a.C, w) < sext(b.C, w))
		case OSLE:
			return c.BoolConst(sext(a.C, w) <= sext(b.C, w))
		}
	}
	if a == b {
		return c.BoolConst(op == OULE || op == OSLE)
	}
	switch op {
	case OULT:
		if b.IsConst() && b.C == 0 {
			return c.False
		}
		if a.IsConst() && a.C == mask(w) {
			return c.False
		}
		// zext(x) < k with k > max(x)
		if b.IsConst() && a.Op == OZExt && a.Args[0].S.W < 64 && b.C > mask(a.Args[0].S.W) {
			return c.True
		}
	case OULE:
		if a.IsConst() && a.C == 0 {
			return c.True
		}
		if b.IsConst() && b.C == mask(w) {
			return c.True
		}
		if b.IsConst() && a.Op == OZExt && a.Args[0].S.W < 64 && b.C >= mask(a.Args[0].S.W) {
			return c.True
		}
	case OSLT:
		// zext(x) <s k : zext'd values are non-negative if widths differ
		if a.Op == OZExt && b.IsConst() && a.S.W > a.Args[0].S.W {
			if sext(b.C, w) <= 0 {
				return c.False
			}
			if sext(b.C, w) > int64(mask(a.Args[0].S.W)) {
				return c.True
			}
		}
	}
	return c.mk(op, Bool, 0, "", 0, 0, a, b)
}

func (c *Ctx) ULT(a, b *Term) *Term { return c.cmp(OULT, a, b) }
func (c *Ctx) ULE(a, b *Term) *Term { return c.cmp(OULE, a, b) }
func (c *Ctx) SLT(a, b *Term) *Term { return c.cmp(OSLT, a, b) }
func (c *Ctx) SLE(a, b *Term) *Term { return c.cmp(OSLE, a, b) }

func (c *Ctx) Extract(a *Term, hi, lo int) *Term {
	if lo == 0 && hi == a.S.W-1 {
		return a
	}
	w := hi - lo + 1
	if a.IsConst() {
		return c.BVConst(a.C>>uint(lo), w)
	}
	if (a.Op == OZExt || a.Op == OSExt) && hi < a.Args[0].S.W {
		return c.Extract(a.Args[0], hi, lo)
	}
	if a.Op == OZExt && lo >= a.Args[0].S.W {
		return c.BVConst(0, w)
	}
	if a.Op == OExtract {
		return c.Extract(a.Args[0], hi+a.A1, lo+a.A1)
	}
	if a.Op == OConcat {
		lw := a.Args[1].S.W
		if hi < lw {
			return c.Extract(a.Args[1], hi, lo)
		}
		if lo >= lw {
			return c.Extract(a.Args[0], hi-lw, lo-lw)
		}
	}
	// extract low bits through bitwise ops / shifts by constants of an or-chain (byte packing)
	if lo == 0 {
		switch a.Op {
		case OBOr, OBAnd, OBXor, OAdd, OSub, OMul:
			// low bits of these only depend on low bits of operands
			x := c.Extract(a.Args[0], hi, 0)
			y := c.Extract(a.Args[1], hi, 0)
			return c.bin(a.Op, x, y)
		case OShl:
			if a.Args[1].IsConst() {
				k := int(a.Args[1].C)
				if k > hi {
					return c.BVConst(0, w)
				}
				// (x << k)[hi:0] = concat(x[hi-k:0], 0^k)
				if k > 0 {
					return c.Concat(c.Extract(a.Args[0], hi-k, 0), c.BVConst(0, k))
				}
			}
		}
	}
	if a.Op == OLShr && a.Args[1].IsConst() {
		k := int(a.Args[1].C)
		if hi+k < a.S.W {
			return c.Extract(a.Args[0], hi+k, lo+k)
		}
	}
	return c.mk(OExtract, BV(w), 0, "", hi, lo, a)
}

func (c *Ctx) Concat(hi, lo *Term) *Term {
	w := hi.S.W + lo.S.W
	if hi.IsConst() && lo.IsConst() && w <= 64 {
		return c.BVConst(hi.C<<uint(lo.S.W)|lo.C, w)
	}
	if hi.IsConst() && hi.C == 0 {
		return c.ZExt(lo, w)
	}
	return c.mk(OConcat, BV(w), 0, "", 0, 0, hi, lo)
}

func (c *Ctx) ZExt(a *Term, w int) *Term {
	if a.S.W == w {
		return a
	}
	if a.S.W > w {
		return c.Extract(a, w-1, 0)
	}
	if a.IsConst() {
		return c.BVConst(a.C, w)
	}
	if a.Op == OZExt {
		return c.ZExt(a.Args[0], w)
	}
	return c.mk(OZExt, BV(w), 0, "", w-a.S.W, 0, a)
}

func (c *Ctx) SExt(a *Term, w int) *Term {
	if a.S.W == w {
		return a
	}
	if a.S.W > w {
		return c.Extract(a, w-1, 0)
	}
	if a.IsConst() {
		return c.BVConst(uint64(sext(a.C, a.S.W)), w)
	}
	if a.Op == OZExt {
		return c.ZExt(a.Args[0], w)
	}
	return c.mk(OSExt, BV(w), 0, "", w-a.S.W, 0, a)
}

// UF applies an uninterpreted function.
func (c *Ctx) UF(name string, ret Sort, args ...*Term) *Term {
	sig := name + "("
	for _, a := range args {
		sig += a.S.SMT() + " "
	}
	sig += ") " + ret.SMT()
	full := name
	if _, ok := c.UFs[full]; !ok {
		c.UFs[full] = sig
		c.UFList = append(c.UFList, full)
	} else if c.UFs[full] != sig {
		panic("UF redeclared with different signature: " + full + ": " + c.UFs[full] + " vs " + sig)
	}
	return c.mk(OUF, ret, 0, name, 0, 0, args...)
}

// ---- floating point ----

func (c *Ctx) fbin(op Op, a, b *Term) *Term {
	if a.IsConst() && b.IsConst() {
		x, y := a.Float(), b.Float()
		switch op {
		case OFAdd:
			return c.FPConst(x + y)
		case OFSub:
			return c.FPConst(x - y)
		case OFMul:
			return c.FPConst(x * y)
		case OFDiv:
			return c.FPConst(x / y)
		}
	}
	return c.mk(op, FP64, 0, "", 0, 0, a, b)
}
func (c *Ctx) FAdd(a, b *Term) *Term { return c.fbin(OFAdd, a, b) }
func (c *Ctx) FSub(a, b *Term) *Term { return c.fbin(OFSub, a, b) }
func (c *Ctx) FMul(a, b *Term) *Term { return c.fbin(OFMul, a, b) }
func (c *Ctx) FDiv(a, b *Term) *Term { return c.fbin(OFDiv, a, b) }
func (c *Ctx) FNeg(a *Term) *Term {
	if a.IsConst() {
		return c.FPConst(-a.Float())
	}
	return c.mk(OFNeg, FP64, 0, "", 0, 0, a)
}
func (c *Ctx) fcmp(op Op, a, b *Term) *Term {
	if a.IsConst() && b.IsConst() {
		x, y := a.Float(), b.Float()
		switch op {
		case OFLt:
			return c.BoolConst(x < y)
		case OFLe:
			return c.BoolConst(x <= y)
		case OFEq:
			return c.BoolConst(x == y)
		}
	}
	return c.mk(op, Bool, 0, "", 0, 0, a, b)
}
func (c *Ctx) FLt(a, b *Term) *Term { return c.fcmp(OFLt, a, b) }
func (c *Ctx) FLe(a, b *Term) *Term { return c.fcmp(OFLe, a, b) }
func (c *Ctx) FEq(a, b *Term) *Term { return c.fcmp(OFEq, a, b) }
func (c *Ctx) FIsNaN(a *Term) *Term {
	if a.IsConst() {
		return c.BoolConst(math.IsNaN(a.Float()))
	}
	return c.mk(OFIsNaN, Bool, 0, "", 0, 0, a)
}
func (c *Ctx) FFromBits(a *Term) *Term {
	if a.IsConst() {
		return c.mk(OConst, FP64, a.C, "", 0, 0)
	}
	return c.mk(OFFromBits, FP64, 0, "", 0, 0, a)
}
func (c *Ctx) FFromSInt(a *Term) *Term {
	if a.IsConst() {
		return c.FPConst(float64(a.SignedVal()))
	}
	return c.mk(OFFromSInt, FP64, 0, "", 0, 0, a)
}
func (c *Ctx) FFromUInt(a *Term) *Term {
	if a.IsConst() {
		return c.FPConst(float64(a.C))
	}
	return c.mk(OFFromUInt, FP64, 0, "", 0, 0, a)
}
func (c *Ctx) FToSInt(a *Term, w int) *Term {
	if a.IsConst() {
		f := a.Float()
		if !math.IsNaN(f) && f > -9.2e18 && f < 9.2e18 {
			return c.BVConst(uint64(int64(f)), w)
		}
	}
	return c.mk(OFToSInt, BV(w), 0, "", w, 0, a)
}
func (c *Ctx) FToUInt(a *Term, w int) *Term {
	if a.IsConst() {
		f := a.Float()
		if !math.IsNaN(f) && f >= 0 && f < 1.8e19 {
			return c.BVConst(uint64(f), w)
		}
	}
	return c.mk(OFToUInt, BV(w), 0, "", w, 0, a)
}

// ---- rendering ----

func constSMT(t *Term) string {
	switch t.S.K {
	case KBool:
		if t.C == 1 {
			return "true"
		}
		return "false"
	case KBV:
		if t.S.W%4 == 0 {
			return fmt.Sprintf("#x%0*x", t.S.W/4, t.C)
		}
		return fmt.Sprintf("#b%0*b", t.S.W, t.C)
	default:
		return fmt.Sprintf("((_ to_fp 11 53) #x%016x)", t.C)
	}
}

// Ref returns the SMT-LIB reference for a term: constants and variables inline, others by name tN.
func (t *Term) Ref() string {
	switch t.Op {
	case OConst:
		return constSMT(t)
	case OVar:
		return "|" + t.Name + "|"
	}
	return "t" + strconv.Itoa(t.ID)
}

// Body renders the one-level definition of the term using Refs of its arguments.
func (t *Term) Body() string {
	var sb strings.Builder
	switch t.Op {
	case OConst, OVar:
		return t.Ref()
	case OExtract:
		fmt.Fprintf(&sb, "((_ extract %d %d) %s)", t.A0, t.A1, t.Args[0].Ref())
	case OZExt:
		fmt.Fprintf(&sb, "((_ zero_extend %d) %s)", t.A0, t.Args[0].Ref())
	case OSExt:
		fmt.Fprintf(&sb, "((_ sign_extend %d) %s)", t.A0, t.Args[0].Ref())
	case OUF:
		if len(t.Args) == 0 {
			return "|" + t.Name + "|"
		}
		sb.WriteString("(|" + t.Name + "|")
		for _, a := range t.Args {
			sb.WriteByte(' ')
			sb.WriteString(a.Ref())
		}
		sb.WriteByte(')')
	case OFFromBits:
		fmt.Fprintf(&sb, "((_ to_fp 11 53) %s)", t.Args[0].Ref())
	case OFFromSInt:
		fmt.Fprintf(&sb, "((_ to_fp 11 53) RNE %s)", t.Args[0].Ref())
	case OFFromUInt:
		fmt.Fprintf(&sb, "((_ to_fp_unsigned 11 53) RNE %s)", t.Args[0].Ref())
	case OFToSInt:
		fmt.Fprintf(&sb, "((_ fp.to_sbv %d) RTZ %s)", t.A0, t.Args[0].Ref())
	case OFToUInt:
		fmt.Fprintf(&sb, "((_ fp.to_ubv %d) RTZ %s)", t.A0, t.Args[0].Ref())
	default:
		n, ok := opNames[t.Op]
		if !ok {
			panic(fmt.Sprintf("no SMT name for op %d", t.Op))
		}
		sb.WriteString("(" + n)
		for _, a := range t.Args {
			sb.WriteByte(' ')
			sb.WriteString(a.Ref())
		}
		sb.WriteByte(')')
	}
	return sb.String()
}

// String renders a term fully inline (debugging / evidence samples), depth-limited.
func (t *Term) String() string { return t.str(6) }

func (t *Term) str(d int) string {
	if t.Op == OConst {
		switch t.S.K {
		case KBool:
			return constSMT(t)
		case KBV:
			return fmt.Sprintf("%d:%d", t.C, t.S.W)
		default:
			return fmt.Sprint(t.Float())
		}
	}
	if t.Op == OVar {
		return t.Name
	}
	if d == 0 {
		return "…"
	}
	var parts []string
	for _, a := range t.Args {
		parts = append(parts, a.str(d-1))
	}
	n := opNames[t.Op]
	switch t.Op {
	case OExtract:
		n = fmt.Sprintf("extract[%d:%d]", t.A0, t.A1)
	case OZExt:
		n = "zext"
	case OSExt:
		n = "sext"
	case OUF:
		n = t.Name
	case OFFromBits:
		n = "fp.frombits"
	case OFFromSInt:
		n = "fp.fromsint"
	case OFFromUInt:
		n = "fp.fromuint"
	case OFToSInt:
		n = "fp.tosint"
	case OFToUInt:
		n = "fp.touint"
	}
	return "(" + n + " " + strings.Join(parts, " ") + ")"
}

// Eval evaluates a term under an assignment of variables (by name) - used to
// check models and to run in concrete mode. UFs are evaluated by the uf callback.
func (c *Ctx) Eval(t *Term, env map[string]uint64, uf func(name string, args []uint64) uint64, memo map[int]uint64) uint64 {
	if v, ok := memo[t.ID]; ok {
		return v
	}
	var r uint64
	switch t.Op {
	case OConst:
		r = t.C
	case OVar:
		r = env[t.Name] & maskSort(t.S)
	case OUF:
		as := make([]uint64, len(t.Args))
		for i, a := range t.Args {
			as[i] = c.Eval(a, env, uf, memo)
		}
		r = uf(t.Name, as) & maskSort(t.S)
	default:
		as := make([]*Term, len(t.Args))
		for i, a := range t.Args {
			v := c.Eval(a, env, uf, memo)
			as[i] = c.mk(OConst, a.S, v, "", 0, 0)
		}
		var res *Term
		switch t.Op {
		case ONot:
			res = c.Not(as[0])
		case OAnd:
			res = c.And(as...)
		case OOr:
			res = c.Or(as...)
		case OIte:
			res = c.Ite(as[0], as[1], as[2])
		case OEq:
			res = c.Eq(as[0], as[1])
		case ONeg:
			res = c.Neg(as[0])
		case OBNot:
			res = c.BNot(as[0])
		case OULT, OULE, OSLT, OSLE:
			res = c.cmp(t.Op, as[0], as[1])
		case OExtract:
			res = c.Extract(as[0], t.A0, t.A1)
		case OZExt:
			res = c.ZExt(as[0], t.S.W)
		case OSExt:
			res = c.SExt(as[0], t.S.W)
		case OConcat:
			res = c.Concat(as[0], as[1])
		case OFAdd, OFSub, OFMul, OFDiv:
			res = c.fbin(t.Op, as[0], as[1])
		case OFNeg:
			res = c.FNeg(as[0])
		case OFLt, OFLe, OFEq:
			res = c.fcmp(t.Op, as[0], as[1])
		case OFIsNaN:
			res = c.FIsNaN(as[0])
		case OFFromBits:
			res = c.FFromBits(as[0])
		case OFFromSInt:
			res = c.FFromSInt(as[0])
		case OFFromUInt:
			res = c.FFromUInt(as[0])
		case OFToSInt:
			res = c.FToSInt(as[0], t.A0)
		case OFToUInt:
			res = c.FToUInt(as[0], t.A0)
		default:
			res = c.bin(t.Op, as[0], as[1])
		}
		if !res.IsConst() {
			panic("Eval: non-constant result for " + t.String())
		}
		r = res.C
	}
	memo[t.ID] = r
	return r
}

func maskSort(s Sort) uint64 {
	switch s.K {
	case KBool:
		return 1
	case KBV:
		return mask(s.W)
	}
	return ^uint64(0)
}

// Vars collects the variables a term depends on.
func Vars(t *Term, seen map[int]bool, out *[]*Term) {
	if seen[t.ID] {
		return
	}
	seen[t.ID] = true
	if t.Op == OVar {
		*out = append(*out, t)
	}
	for _, a := range t.Args {
		Vars(a, seen, out)
	}
}

var _ = bits.Len
