// Package loader builds SSA for a package of the repository under test with the
// harness files injected by overlay and the cgo RocksDB binding replaced by a
// type-only stand-in. Nothing is cached: every call re-reads the working tree.
package loader

import (
	"fmt"
	"os"
	"path/filepath"
	"sort"
	"strings"

	"golang.org/x/tools/go/packages"
	"golang.org/x/tools/go/ssa"
	"golang.org/x/tools/go/ssa/ssautil"
)

type Config struct {
	Repo       string // /repo
	Verif      string // /verif
	Pkg        string // e.g. ./rockredis
	HarnessDir string // /verif/harness/rockredis
	BuildDir   string // /verif/build
	Extra      map[string]string // further package dir (./cluster) -> harness dir injected there (helpers, exports)
}

type Loaded struct {
	Prog    *ssa.Program
	Pkg     *ssa.Package
	Overlay map[string]string // virtual path -> real path
	ModFile string
	Files   []string
}

// PrepareModfile writes build/repo.mod + repo.sum (copy of the repo's go.mod with the extra replaces).
func PrepareModfile(repo, verif, buildDir string) (string, error) {
	if err := os.MkdirAll(buildDir, 0755); err != nil {
		return "", err
	}
	gomod, err := os.ReadFile(filepath.Join(repo, "go.mod"))
	if err != nil {
		return "", err
	}
	gosum, err := os.ReadFile(filepath.Join(repo, "go.sum"))
	if err != nil {
		return "", err
	}
	// stubs/ugorji: the pinned github.com/ugorji/go with one character of a code-generator base64 alphabet
	// corrected ("__" -> "-_"); the original panics in package init under go >= 1.22 (duplicate symbol), which
	// keeps every test binary that links it (cluster/pdnode_coord, server) from starting.
	extra := fmt.Sprintf("\nrequire vsym v0.0.0\nreplace vsym => %s\nreplace github.com/youzan/gorocksdb => %s\nreplace github.com/ugorji/go => %s\n",
		filepath.Join(verif, "vsym"), filepath.Join(verif, "stubs", "gorocksdb"), filepath.Join(verif, "stubs", "ugorji"))
	mf := filepath.Join(buildDir, "repo.mod")
	if err := os.WriteFile(mf, append(gomod, []byte(extra)...), 0644); err != nil {
		return "", err
	}
	if err := os.WriteFile(filepath.Join(buildDir, "repo.sum"), gosum, 0644); err != nil {
		return "", err
	}
	return mf, nil
}

// OverlayFor maps every harness file into the package directory of the repo.
func OverlayFor(repo, pkg, harnessDir string) (map[string]string, error) {
	ov := map[string]string{}
	ents, err := os.ReadDir(harnessDir)
	if err != nil {
		return nil, err
	}
	for _, e := range ents {
		if e.IsDir() || !strings.HasSuffix(e.Name(), ".go") {
			continue
		}
		virt := filepath.Join(repo, pkg, "zz_verif_"+e.Name())
		ov[virt] = filepath.Join(harnessDir, e.Name())
	}
	return ov, nil
}

func Load(cfg Config) (*Loaded, error) {
	mf, err := PrepareModfile(cfg.Repo, cfg.Verif, cfg.BuildDir)
	if err != nil {
		return nil, err
	}
	ov, err := OverlayFor(cfg.Repo, cfg.Pkg, cfg.HarnessDir)
	if err != nil {
		return nil, err
	}
	for pkg, dir := range cfg.Extra {
		ov2, err := OverlayFor(cfg.Repo, pkg, dir)
		if err != nil {
			return nil, err
		}
		for k, v := range ov2 {
			ov[k] = v
		}
	}
	overlay := map[string][]byte{}
	var files []string
	for virt, real := range ov {
		b, err := os.ReadFile(real)
		if err != nil {
			return nil, err
		}
		if strings.HasSuffix(virt, "_test.go") {
			continue
		}
		overlay[virt] = b
		files = append(files, real)
	}
	sort.Strings(files)
	pcfg := &packages.Config{
		Mode:       packages.LoadAllSyntax,
		Dir:        cfg.Repo,
		BuildFlags: []string{"-modfile=" + mf, "-tags=verif"},
		Overlay:    overlay,
		Env:        append(os.Environ(), "GOFLAGS=-mod=mod", "GOPROXY=off", "GOSUMDB=off", "GOTOOLCHAIN=local", "CGO_ENABLED=1"),
	}
	initial, err := packages.Load(pcfg, cfg.Pkg)
	if err != nil {
		return nil, err
	}
	var errs []string
	packages.Visit(initial, nil, func(p *packages.Package) {
		for _, e := range p.Errors {
			errs = append(errs, p.PkgPath+": "+e.Error())
		}
	})
	if len(errs) > 0 {
		if len(errs) > 10 {
			errs = errs[:10]
		}
		return nil, fmt.Errorf("package load errors:\n%s", strings.Join(errs, "\n"))
	}
	prog, pkgs := ssautil.AllPackages(initial, ssa.InstantiateGenerics)
	prog.Build()
	if len(pkgs) != 1 || pkgs[0] == nil {
		return nil, fmt.Errorf("expected one initial package, got %d", len(pkgs))
	}
	return &Loaded{Prog: prog, Pkg: pkgs[0], Overlay: ov, ModFile: mf, Files: files}, nil
}
