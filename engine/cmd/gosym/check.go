package main

import (
	"bytes"
	"encoding/json"
	"flag"
	"fmt"
	"os"
	"os/exec"
	"path/filepath"
	"regexp"
	"sort"
	"strconv"
	"strings"
	"sync"
	"time"

	"gosym/interp"
	"gosym/loader"

	"golang.org/x/tools/go/ssa"
)

// ---- configuration (/verif/props.json) ----

type groupCfg struct {
	Pkg      string         `json:"pkg"`
	Harness  string         `json:"harness"` // dir under /verif/harness
	Match    string         `json:"match"`
	Split    map[string]int `json:"split,omitempty"`    // harness name regexp -> number of forced first choices
	Split2   map[string][]int `json:"split2,omitempty"` // harness name regexp -> [n1, n2]: forced first two choices
	Thorough bool           `json:"thorough_only,omitempty"`
	MaxInstr int            `json:"max_instr,omitempty"`
	NoNative bool           `json:"no_native,omitempty"` // harness uses environment stubs that cannot be replayed natively
	Solver   string         `json:"solver,omitempty"`    // solver back end for this group (default: --solver)
	Extra    map[string]string `json:"extra,omitempty"`  // other package dir -> harness dir (under /verif/harness) injected there
}

type propCfg struct {
	Title       string     `json:"title"`
	Groups      []groupCfg `json:"groups"`
	Explanation string     `json:"explanation"`
	Bounds      string     `json:"bounds"`
	Outside     string     `json:"outside"`
	Assumptions []string   `json:"assumptions"`
	Trusted     []string   `json:"trusted_base"`
	SideChecks  []string   `json:"side_checks,omitempty"`
}

type knownFinding struct {
	Property string `json:"property"`
	Harness  string `json:"harness"`       // regexp on harness name
	Msg      string `json:"msg_contains"`  // substring of assertion / panic message
	Site     string `json:"site_contains"` // substring of site or stack
	Tag      string `json:"tag,omitempty"` // path tag set by vsym.Tag
	What     string `json:"what"`
}

type knownFile struct {
	Findings []knownFinding `json:"findings"`
	Fixed    []string       `json:"fixed"`
}

type job struct {
	fn     *ssa.Function
	prefix []int
	mod    []int
	group  *groupCfg
}

type harnessSummary struct {
	*interp.Result
	Group     int      `json:"group"`
	NativeOK  int      `json:"native_witnesses_ok"`
	NativeBad []string `json:"native_witness_failures,omitempty"`
}

func cmdCheck(args []string) int {
	fs := flag.NewFlagSet("check", flag.ExitOnError)
	tier := fs.String("tier", envOr("VERIF_TIER", "quick"), "quick|thorough")
	repo := fs.String("repo", envOr("VERIF_REPO", "/repo"), "repository under test")
	verif := fs.String("verif", "/verif", "verif dir")
	only := fs.String("only", "", "regexp: run only matching harnesses (debugging; evidence not written)")
	workers := fs.Int("workers", 16, "parallel jobs")
	replay := fs.String("replay", "", "replay a counterexample file natively")
	solver := fs.String("solver", "z3-new", "solver")
	noNative := fs.Bool("nonative", false, "skip native witness validation (debugging)")
	jobDeadline := fs.Int("jobdeadline", 0, "per job deadline in seconds (default 1500 quick / 5400 thorough)")
	fs.Parse(args)
	if fs.NArg() < 1 {
		fmt.Fprintln(os.Stderr, "usage: gosym check <property> [--tier quick|thorough]")
		return 2
	}
	id := fs.Arg(0)
	seed, _ := strconv.Atoi(envOr("VERIF_SEED", "0"))
	t0 := time.Now()

	var props map[string]*propCfg
	if err := readJSON(filepath.Join(*verif, "props.json"), &props); err != nil {
		fmt.Fprintln(os.Stderr, "props.json:", err)
		return 2
	}
	pc, ok := props[id]
	if !ok {
		fmt.Fprintln(os.Stderr, "unknown property", id)
		return 2
	}
	var known knownFile
	readJSON(filepath.Join(*verif, "known_findings.json"), &known)

	if *replay != "" {
		return replayFile(*repo, *verif, pc, *replay)
	}

	solverSet := false
	fs.Visit(func(f *flag.Flag) {
		if f.Name == "solver" {
			solverSet = true
		}
	})
	thorough := *tier == "thorough"
	if *jobDeadline == 0 {
		// generous: the slowest quick job takes ~2 minutes and the slowest thorough job ~25 minutes on the
		// machine this was built on; a deadline hit is reported as inconclusive (exit 2), never as success
		*jobDeadline = 1500
		if thorough {
			*jobDeadline = 5400
		}
	}
	var onlyRe *regexp.Regexp
	if *only != "" {
		onlyRe = regexp.MustCompile(*only)
	}

	var all []*harnessSummary
	var fatal []string
	violations := 0
	knownHits := map[string]bool{}
	var knownTags []string
	for _, kf := range known.Findings {
		if kf.Property == id && kf.Tag != "" {
			knownTags = append(knownTags, kf.Tag)
		}
	}
	nativeValidated := 0
	replayDir := filepath.Join(*verif, "replay", id)
	os.RemoveAll(replayDir)
	os.MkdirAll(replayDir, 0755)
	var violationLines []string

	for gi := range pc.Groups {
		g := &pc.Groups[gi]
		if g.Thorough && !thorough {
			continue
		}
		hdir := filepath.Join(*verif, "harness", g.Harness)
		extra := map[string]string{}
		for k, v := range g.Extra {
			extra[k] = filepath.Join(*verif, "harness", v)
		}
		ld, err := loader.Load(loader.Config{Repo: *repo, Verif: *verif, Pkg: g.Pkg, HarnessDir: hdir, BuildDir: filepath.Join(*verif, "build"), Extra: extra})
		if err != nil {
			fatal = append(fatal, "load "+g.Pkg+": "+err.Error())
			continue
		}
		re := regexp.MustCompile(g.Match)
		var fns []*ssa.Function
		for name, m := range ld.Pkg.Members {
			if f, ok := m.(*ssa.Function); ok && re.MatchString(name) && f.Signature.Params().Len() == 0 {
				if onlyRe != nil && !onlyRe.MatchString(name) {
					continue
				}
				fns = append(fns, f)
			}
		}
		sort.Slice(fns, func(i, j int) bool { return fns[i].Name() < fns[j].Name() })
		if len(fns) == 0 {
			fatal = append(fatal, "no harness matches "+g.Match+" in "+g.Pkg)
			continue
		}
		var jobs []job
		for _, f := range fns {
			n := 0
			for pat, k := range g.Split {
				if regexp.MustCompile(pat).MatchString(f.Name()) {
					n = k
				}
			}
			var n2 []int
			for pat, k := range g.Split2 {
				if regexp.MustCompile(pat).MatchString(f.Name()) {
					n2 = k
				}
			}
			if len(n2) >= 2 {
				// cartesian product of residue classes of the first len(n2) choices
				idx := make([]int, len(n2))
				for {
					jobs = append(jobs, job{fn: f, prefix: append([]int{}, idx...), mod: append([]int{}, n2...), group: g})
					k := len(idx) - 1
					for k >= 0 {
						idx[k]++
						if idx[k] < n2[k] {
							break
						}
						idx[k] = 0
						k--
					}
					if k < 0 {
						break
					}
				}
			} else if n <= 1 {
				jobs = append(jobs, job{fn: f, group: g})
			} else {
				for i := 0; i < n; i++ {
					jobs = append(jobs, job{fn: f, prefix: []int{i}, mod: []int{n}, group: g})
				}
			}
		}
		results := make([]*interp.Result, len(jobs))
		var wg sync.WaitGroup
		sem := make(chan struct{}, *workers)
		for i, jb := range jobs {
			wg.Add(1)
			go func(i int, jb job) {
				defer wg.Done()
				sem <- struct{}{}
				defer func() { <-sem }()
				sv := *solver
				if jb.group.Solver != "" && !solverSet {
					sv = jb.group.Solver
				}
				results[i] = runJob(ld.Prog, jb, sv, thorough, time.Duration(*jobDeadline)*time.Second, knownTags)
				if os.Getenv("GOSYM_JOBS") != "" {
					r := results[i]
					fmt.Fprintf(os.Stderr, "job %s%v paths=%d obl=%d viol=%d q=%d solver=%.1fs wall=%.1fs\n", jb.fn.Name(), jb.prefix, r.Paths, r.Obligations, len(r.Violations), r.Queries, r.SolverSec, r.WallSec)
				}
			}(i, jb)
		}
		wg.Wait()
		// merge split jobs per harness
		byName := map[string]*harnessSummary{}
		var order []string
		for i, r := range results {
			name := jobs[i].fn.Name()
			hs, ok := byName[name]
			if !ok {
				r.ReachTags = reachTags(jobs[i].fn)
				hs = &harnessSummary{Result: r, Group: gi}
				byName[name] = hs
				order = append(order, name)
				continue
			}
			mergeResult(hs.Result, r)
		}
		// native: validate witnesses and confirm violations
		var nat *nativeRunner
		needNative := false
		for _, name := range order {
			hs := byName[name]
			if len(hs.Violations) > 0 || (len(hs.Witnesses) > 0 && !*noNative) {
				needNative = true
			}
		}
		if needNative && !g.NoNative {
			nat, err = newNativeRunner(*repo, *verif, g, ld, order, *tier)
			if err != nil {
				fatal = append(fatal, "native build: "+err.Error())
			}
		}
		for _, name := range order {
			hs := byName[name]
			all = append(all, hs)
			if nat != nil && !*noNative && !hs.SymbolicOnly {
				for wi, w := range hs.Witnesses {
					p := filepath.Join(replayDir, fmt.Sprintf("%s-witness-%d.json", name, wi))
					writeReplay(p, id, name, g, "witness", "", w)
					out, st := nat.run(name, p)
					usesUF := false
					for k := range hs.Stubs {
						if strings.Contains(k, "crc32") || strings.Contains(k, "murmur3") {
							usesUF = true
						}
					}
					if st == "ok" {
						hs.NativeOK++
						nativeValidated++
						os.Remove(p)
					} else if st == "assumefail" && usesUF {
						// the model fixed a value of an uninterpreted function (crc/hash) that the real function
						// does not take for these inputs: the sample says nothing; skipped, not counted
						os.Remove(p)
					} else {
						hs.NativeBad = append(hs.NativeBad, fmt.Sprintf("witness %d: native outcome %s: %s", wi, st, lastLines(out, 3)))
					}
				}
			}
			hs.Witnesses = nil
			distinct := map[string]int{}
			reproducedKey := map[string]bool{}
			for vi, v := range hs.Violations {
				dk := v.Site + "|" + v.Msg
				if kf := matchKnown(known.Findings, id, name, v); kf != nil {
					dk += "|known:" + kf.Tag + kf.Site // listed findings and other violations at the same assertion are replayed separately
				}
				distinct[dk]++
				if distinct[dk] > 2 {
					// more instances of an already replayed (site, message): counted if that one reproduced, not replayed again
					if reproducedKey[dk] && matchKnown(known.Findings, id, name, v) == nil {
						violations++
					}
					continue
				}
				p := filepath.Join(replayDir, fmt.Sprintf("%s-%d.json", name, vi))
				writeReplay(p, id, name, g, v.Kind, v.Msg, v.Inputs)
				confirmed := "symbolic-only"
				if nat != nil && !hs.SymbolicOnly {
					out, st := nat.run(name, p)
					switch st {
					case "assertfail", "panic":
						confirmed = "reproduced"
					case "ok":
						confirmed = "not-reproduced"
						fatal = append(fatal, fmt.Sprintf("UNCONFIRMED %s: counterexample %s does not reproduce natively (encoder or stub defect): %s", name, p, lastLines(out, 2)))
					default:
						confirmed = "replay-" + st
						fatal = append(fatal, fmt.Sprintf("UNCONFIRMED %s: native replay of %s ended with %s: %s", name, p, st, lastLines(out, 2)))
					}
				}
				if confirmed != "reproduced" && confirmed != "symbolic-only" {
					continue
				}
				reproducedKey[dk] = true
				if kf := matchKnown(known.Findings, id, name, v); kf != nil {
					key := kf.Harness + "|" + kf.Msg + "|" + kf.Site + "|" + kf.Tag
					if !knownHits[key] {
						knownHits[key] = true
						fmt.Printf("KNOWN-FINDING: property=%s %s\n", id, kf.What)
					}
					continue
				}
				violations++
				if len(violationLines) < 20 {
					violationLines = append(violationLines, fmt.Sprintf("VIOLATION property=%s replay=%s", id, p))
					fmt.Printf("  %s: %s %q at %s [%s]\n", name, v.Kind, v.Msg, v.Site, confirmed)
				}
			}
		}
		if nat != nil {
			nat.close()
		}
	}

	// ---- verdict ----
	var inconclusive []string
	obligations, discharged, paths, trivial, queries := 0, 0, 0, 0, 0
	var solverSec float64
	var instrs int64
	funcs := map[string]int{}
	stubs := map[string]int{}
	assumes := map[string]int{}
	var samples []interface{}
	var perHarness []map[string]interface{}
	for _, hs := range all {
		obligations += hs.Obligations
		discharged += hs.Discharged
		paths += hs.Paths
		trivial += hs.Trivial
		queries += hs.Queries
		solverSec += hs.SolverSec
		instrs += hs.Instrs
		for k, v := range hs.Funcs {
			funcs[k] += v
		}
		for k, v := range hs.Stubs {
			stubs[k] += v
		}
		for k, v := range hs.Assumes {
			assumes[k] += v
		}
		seen := map[string]bool{}
		for _, s := range hs.Inconclusive {
			if !seen[s] {
				seen[s] = true
				inconclusive = append(inconclusive, hs.Harness+": "+s)
			}
		}
		for _, t := range hs.ReachTags {
			if hs.Reach[t] == 0 {
				inconclusive = append(inconclusive, fmt.Sprintf("%s: vacuity: reach witness %q was never reached", hs.Harness, t))
			}
		}
		if len(hs.ReachTags) == 0 {
			inconclusive = append(inconclusive, hs.Harness+": harness has no vsym.Reach witness")
		}
		for _, nb := range hs.NativeBad {
			inconclusive = append(inconclusive, hs.Harness+": translator validation failed: "+nb)
		}
		for i, s := range hs.Samples {
			if i < 2 {
				samples = append(samples, s)
			}
		}
		perHarness = append(perHarness, map[string]interface{}{
			"harness": hs.Harness, "paths": hs.Paths, "infeasible_paths": hs.Infeasible, "obligations": hs.Obligations, "discharged": hs.Discharged,
			"trivially_true_asserts": hs.Trivial, "violations": len(hs.Violations), "reach": hs.Reach, "solver_queries": hs.Queries,
			"solver_sec": round2(hs.SolverSec), "wall_sec": round2(hs.WallSec), "native_witnesses_ok": hs.NativeOK, "max_symbolic_inputs": hs.Inputs,
			"max_decisions_on_a_path": hs.Decisions, "assume_pruned_paths": hs.AssumePruned,
		})
	}
	inconclusive = append(inconclusive, fatal...)
	for _, sc := range pc.SideChecks {
		if msg := runSideCheck(sc, *repo); msg != "" {
			inconclusive = append(inconclusive, "side-check "+sc+": "+msg)
		}
	}

	wall := time.Since(t0).Seconds()
	if onlyRe == nil {
		type fc struct {
			Name   string `json:"fn"`
			Instrs int    `json:"ssa_instructions_executed"`
		}
		var fl []fc
		for k, v := range funcs {
			if !strings.Contains(k, "vsym.") {
				fl = append(fl, fc{k, v})
			}
		}
		sort.Slice(fl, func(i, j int) bool { return fl[i].Instrs > fl[j].Instrs })
		repoFns := 0
		for _, f := range fl {
			if strings.Contains(f.Name, "youzan/ZanRedisDB") {
				repoFns++
			}
		}
		if len(fl) > 60 {
			fl = fl[:60]
		}
		var stubl []string
		for k := range stubs {
			if !strings.HasPrefix(k, "vsym.") {
				stubl = append(stubl, k)
			}
		}
		sort.Strings(stubl)
		var assl []string
		for k, v := range assumes {
			assl = append(assl, fmt.Sprintf("%s (x%d)", k, v))
		}
		sort.Strings(assl)
		if len(samples) == 0 {
			samples = append(samples, "no non-trivial obligation was generated")
		}
		if len(samples) > 24 {
			samples = samples[:24]
		}
		ev := map[string]interface{}{
			"property_id": id,
			"tier":        *tier,
			"seed":        seed,
			"level":       "other",
			"wall_s":      round2(wall),
			"violations":  violations,
			"assumptions": append(append([]string{}, pc.Assumptions...), "harness assumes (vsym.Assume sites, count): "+strings.Join(assl, "; ")),
			"coverage": map[string]interface{}{
				"explanation": "bounded symbolic execution of the repository's own Go code (SSA built from the working tree on this run), decided by an SMT solver: " + pc.Explanation,
				"bounds":      pc.Bounds,
				"outside_the_claim": pc.Outside,
				"obligations": obligations,
				"discharged":  discharged,
				"obligations_note": "an obligation is one vsym.Assert reached on one explored path whose condition did not constant-fold; discharged = solver answered unsat for its negation under the path condition. trivially_true_asserts were decided by term rewriting alone.",
				"trivially_true_asserts":        trivial,
				"checker_cmd":                   fmt.Sprintf("./check %s --tier %s", id, *tier),
				"trusted_base":                  pc.Trusted,
				"evaluations":                   paths,
				"distinct_nontrivial":           obligations,
				"rule":                          "evaluations = feasible symbolic paths explored (each covers every input value satisfying its path condition); distinct_nontrivial = assertion instances on distinct paths that needed the solver",
				"samples":                       samples,
				"traces_validated_against_impl": nativeValidated,
				"translator_validation":         "for sampled paths the solver's model of the path condition was replayed through the natively compiled harness (same source, go test -overlay) and had to pass every assertion and assumption",
				"functions_encoded":             fl,
				"repo_functions_encoded":        repoFns,
				"stubs_hit":                     stubl,
				"solver":                        solverNames(pc, *solver, solverSet) + " (one long-lived process per job, incremental push/pop)",
				"solver_queries":                queries,
				"solver_sec":                    round2(solverSec),
				"ssa_instructions_executed":     instrs,
				"inconclusive":                  inconclusive,
				"harnesses":                     perHarness,
				"exhaustive":                    false,
			},
		}
		b, _ := json.MarshalIndent(ev, "", " ")
		evDir := filepath.Join(*verif, "evidence")
		if *repo != "/repo" {
			// a run against another tree (seeded change in a scratch worktree) must not replace the evidence of /repo
			evDir = filepath.Join(os.TempDir(), "gosym-evidence-other-tree")
		}
		os.MkdirAll(evDir, 0755)
		if err := os.WriteFile(filepath.Join(evDir, id+".json"), b, 0644); err != nil {
			fmt.Fprintln(os.Stderr, "cannot write evidence:", err)
			return 2
		}
	}
	fmt.Printf("%s tier=%s harnesses=%d paths=%d obligations=%d discharged=%d trivial=%d native_validated=%d violations=%d inconclusive=%d solver=%.1fs wall=%.1fs\n",
		id, *tier, len(all), paths, obligations, discharged, trivial, nativeValidated, violations, len(inconclusive), solverSec, wall)
	for _, l := range violationLines {
		fmt.Println(l)
	}
	if violations > 0 {
		return 1
	}
	if len(inconclusive) > 0 {
		for i, s := range inconclusive {
			if i >= 15 {
				fmt.Printf("  ... %d more\n", len(inconclusive)-i)
				break
			}
			if len(s) > 700 {
				s = s[:700] + "…"
			}
			fmt.Println("INCONCLUSIVE:", s)
		}
		return 2
	}
	return 0
}

func solverNames(pc *propCfg, def string, set bool) string {
	names := map[string]bool{}
	for _, g := range pc.Groups {
		if g.Solver != "" && !set {
			names[g.Solver] = true
		} else {
			names[def] = true
		}
	}
	var l []string
	for n := range names {
		switch n {
		case "z3-new":
			n = "z3 5.1.0 (z3-new)"
		case "z3":
			n = "z3 4.8.12"
		case "cvc5-int":
			n = "cvc5 1.0 --solve-bv-as-int=sum (bit-vectors as integers with mod 2^k semantics)"
		case "cvc5":
			n = "cvc5 1.0"
		}
		l = append(l, n)
	}
	sort.Strings(l)
	return strings.Join(l, ", ")
}

func round2(f float64) float64 { return float64(int(f*100+0.5)) / 100 }

func readJSON(p string, v interface{}) error {
	b, err := os.ReadFile(p)
	if err != nil {
		return err
	}
	return json.Unmarshal(b, v)
}

func runJob(prog *ssa.Program, jb job, solver string, thorough bool, deadline time.Duration, knownTags []string) (res *interp.Result) {
	opts := interp.DefaultOptions()
	opts.Deadline = time.Now().Add(deadline)
	opts.Solver = solver
	opts.Thorough = thorough
	opts.Witnesses = 3
	opts.ForcePrefix = jb.prefix
	opts.ForceMod = jb.mod
	opts.KnownTags = knownTags
	if jb.group.MaxInstr > 0 {
		opts.MaxInstr = jb.group.MaxInstr
	}
	in, err := interp.New(prog, opts)
	if err != nil {
		return &interp.Result{Harness: jb.fn.Name(), Inconclusive: []string{"engine: " + err.Error()}}
	}
	defer in.Close()
	defer func() {
		if r := recover(); r != nil {
			res = in.PartialResult()
			if res == nil {
				res = &interp.Result{Harness: jb.fn.Name()}
			}
			if ec, ok := r.(interp.EngineCrash); ok {
				res.Inconclusive = append(res.Inconclusive, fmt.Sprintf("engine-crash: %v at %s\n%s", ec.V, ec.Where, ec.Stack))
			} else {
				res.Inconclusive = append(res.Inconclusive, fmt.Sprintf("engine-crash: %v at %s", r, in.Where()))
			}
		}
	}()
	res = in.Run(jb.fn)
	res.InitNotes = in.InitNotes()
	return res
}

func mergeResult(a, b *interp.Result) {
	a.Paths += b.Paths
	a.Infeasible += b.Infeasible
	a.Obligations += b.Obligations
	a.Discharged += b.Discharged
	a.Trivial += b.Trivial
	a.AssumePruned += b.AssumePruned
	a.Inconclusive = append(a.Inconclusive, b.Inconclusive...)
	a.Violations = append(a.Violations, b.Violations...)
	for k, v := range b.Reach {
		a.Reach[k] += v
	}
	for k, v := range b.Assumes {
		a.Assumes[k] += v
	}
	for k, v := range b.Funcs {
		a.Funcs[k] += v
	}
	for k, v := range b.Stubs {
		a.Stubs[k] += v
	}
	a.Queries += b.Queries
	a.SolverSec += b.SolverSec
	if b.WallSec > a.WallSec {
		a.WallSec = b.WallSec
	}
	a.Instrs += b.Instrs
	a.SymbolicOnly = a.SymbolicOnly || b.SymbolicOnly
	if len(a.Samples) < 6 {
		a.Samples = append(a.Samples, b.Samples...)
	}
	if len(a.Witnesses) < 4 {
		a.Witnesses = append(a.Witnesses, b.Witnesses...)
	}
	if b.Inputs > a.Inputs {
		a.Inputs = b.Inputs
	}
	if b.Decisions > a.Decisions {
		a.Decisions = b.Decisions
	}
}

// reachTags lists the constant tags of vsym.Reach calls in the harness function (and functions it calls in its package, one level).
func reachTags(fn *ssa.Function) []string {
	seen := map[string]bool{}
	var visit func(f *ssa.Function, depth int)
	visited := map[*ssa.Function]bool{}
	visit = func(f *ssa.Function, depth int) {
		if visited[f] || f.Blocks == nil {
			return
		}
		visited[f] = true
		for _, b := range f.Blocks {
			for _, ins := range b.Instrs {
				c, ok := ins.(ssa.CallInstruction)
				if !ok {
					continue
				}
				callee := c.Common().StaticCallee()
				if callee == nil {
					continue
				}
				if callee.String() == "vsym.Reach" {
					if k, ok := c.Common().Args[0].(*ssa.Const); ok {
						seen[strings.Trim(k.Value.ExactString(), "\"")] = true
					}
				} else if depth < 3 && callee.Pkg == fn.Pkg && strings.HasPrefix(callee.Name(), "verif") {
					visit(callee, depth+1)
				}
			}
		}
		for _, af := range f.AnonFuncs {
			visit(af, depth)
		}
	}
	visit(fn, 0)
	var out []string
	for k := range seen {
		out = append(out, k)
	}
	sort.Strings(out)
	return out
}

func matchKnown(fs []knownFinding, id, harness string, v interp.Violation) *knownFinding {
	for i := range fs {
		f := &fs[i]
		if f.Property != id {
			continue
		}
		if f.Harness != "" {
			if ok, _ := regexp.MatchString(f.Harness, harness); !ok {
				continue
			}
		}
		if f.Msg != "" && !strings.Contains(v.Msg, f.Msg) {
			continue
		}
		if f.Site != "" && !strings.Contains(v.Site+" "+v.Stack, f.Site) {
			continue
		}
		if f.Tag != "" {
			has := false
			for _, t := range v.Tags {
				if t == f.Tag {
					has = true
				}
			}
			if !has {
				continue
			}
		}
		return f
	}
	return nil
}

func writeReplay(p, id, harness string, g *groupCfg, kind, msg string, inputs []interp.InputVal) {
	doc := map[string]interface{}{"property": id, "harness": harness, "pkg": g.Pkg, "harness_dir": g.Harness, "kind": kind, "msg": msg, "inputs": inputs}
	b, _ := json.MarshalIndent(doc, "", " ")
	os.WriteFile(p, b, 0644)
}

func lastLines(s string, n int) string {
	ls := strings.Split(strings.TrimSpace(s), "\n")
	var keep []string
	for _, l := range ls {
		if strings.Contains(l, "VSYM") || strings.Contains(l, "panic") || strings.Contains(l, "FAIL") || strings.Contains(l, "error") {
			keep = append(keep, strings.TrimSpace(l))
		}
	}
	if len(keep) == 0 {
		keep = ls
	}
	if len(keep) > n {
		keep = keep[:n]
	}
	r := strings.Join(keep, " | ")
	if len(r) > 500 {
		r = r[:500]
	}
	return r
}

// ---- native runner: compiles the package's test binary once (harness + generated test), then runs it per replay file ----

type nativeRunner struct {
	dir  string
	bin  string
	tier string
	pkg  string
	repo string
}

func newNativeRunner(repo, verif string, g *groupCfg, ld *loader.Loaded, harnesses []string, tier string) (*nativeRunner, error) {
	dir, err := os.MkdirTemp(filepath.Join(verif, "build"), "native-")
	if err != nil {
		return nil, err
	}
	pkgName := ld.Pkg.Pkg.Name()
	var sb strings.Builder
	sb.WriteString("//go:build verif\n\npackage " + pkgName + "\n\nimport (\n\t\"fmt\"\n\t\"os\"\n\t\"testing\"\n)\n\n")
	sb.WriteString("func TestVerifReplay(t *testing.T) {\n\tfns := map[string]func(){\n")
	for _, h := range harnesses {
		fmt.Fprintf(&sb, "\t\t%q: %s,\n", h, h)
	}
	sb.WriteString("\t}\n\tf := fns[os.Getenv(\"VSYM_HARNESS\")]\n\tif f == nil {\n\t\tt.Fatalf(\"VSYM-NO-HARNESS\")\n\t}\n")
	sb.WriteString("\tdefer func() {\n\t\tif r := recover(); r != nil {\n\t\t\tfmt.Printf(\"VSYM-NATIVE-PANIC: %v\\n\", r)\n\t\t\tt.Fatalf(\"panic\")\n\t\t}\n\t}()\n")
	sb.WriteString("\tf()\n\tfmt.Println(\"VSYM-NATIVE-OK\")\n}\n")
	testFile := filepath.Join(dir, "replay_test.go")
	if err := os.WriteFile(testFile, []byte(sb.String()), 0644); err != nil {
		return nil, err
	}
	ov := map[string]string{}
	for k, v := range ld.Overlay {
		ov[k] = v
	}
	ov[filepath.Join(repo, g.Pkg, "zz_verif_replay_test.go")] = testFile
	// the package's own _test.go files (TestMain, engine set-up) are masked out of the replay binary
	if ents, err := os.ReadDir(filepath.Join(repo, g.Pkg)); err == nil {
		for _, e := range ents {
			if !strings.HasSuffix(e.Name(), "_test.go") {
				continue
			}
			src, err := os.ReadFile(filepath.Join(repo, g.Pkg, e.Name()))
			if err != nil {
				continue
			}
			clause := "package " + pkgName
			if m := regexp.MustCompile(`(?m)^package\s+(\w+)`).FindStringSubmatch(string(src)); m != nil {
				clause = "package " + m[1]
			}
			mask := filepath.Join(dir, "mask_"+e.Name())
			os.WriteFile(mask, []byte(clause+"\n"), 0644)
			ov[filepath.Join(repo, g.Pkg, e.Name())] = mask
		}
	}
	ob, _ := json.Marshal(map[string]interface{}{"Replace": ov})
	ovFile := filepath.Join(dir, "overlay.json")
	os.WriteFile(ovFile, ob, 0644)
	bin := filepath.Join(dir, "replay.test")
	cmd := exec.Command("go", "test", "-c", "-o", bin, "-modfile="+ld.ModFile, "-overlay="+ovFile, "-tags=verif", "-vet=off", g.Pkg)
	cmd.Dir = repo
	cmd.Env = append(os.Environ(), "GOFLAGS=-mod=mod", "GOPROXY=off", "GOSUMDB=off", "GOTOOLCHAIN=local")
	out, err := cmd.CombinedOutput()
	if err != nil {
		os.RemoveAll(dir)
		return nil, fmt.Errorf("go test -c failed: %v\n%s", err, lastLines(string(out), 8))
	}
	return &nativeRunner{dir: dir, bin: bin, tier: tier, pkg: g.Pkg, repo: repo}, nil
}

// run returns the output and one of: ok, assertfail, panic, assumefail, mismatch, timeout, error
func (n *nativeRunner) run(harness, replayFile string) (string, string) {
	cmd := exec.Command(n.bin, "-test.run", "^TestVerifReplay$", "-test.count=1", "-test.timeout=120s")
	cmd.Dir = filepath.Join(n.repo, n.pkg)
	cmd.Env = append(os.Environ(), "VSYM_REPLAY="+replayFile, "VSYM_HARNESS="+harness, "VERIF_TIER="+n.tier)
	var buf bytes.Buffer
	cmd.Stdout = &buf
	cmd.Stderr = &buf
	done := make(chan error, 1)
	if err := cmd.Start(); err != nil {
		return err.Error(), "error"
	}
	go func() { done <- cmd.Wait() }()
	select {
	case <-done:
	case <-time.After(150 * time.Second):
		cmd.Process.Kill()
		return buf.String(), "timeout"
	}
	out := buf.String()
	switch {
	case strings.Contains(out, "test timed out after"):
		// the native run hung: not a faithful reproduction of an assertion failure
		return out, "timeout"
	case strings.Contains(out, "VSYM-REPLAY-MISMATCH"):
		return out, "mismatch"
	case strings.Contains(out, "VSYM-ASSUME-FAIL"):
		return out, "assumefail"
	case strings.Contains(out, "VSYM-ASSERT-FAIL"):
		return out, "assertfail"
	case strings.Contains(out, "VSYM-NATIVE-PANIC") || strings.Contains(out, "panic:") || strings.Contains(out, "fatal error:"):
		return out, "panic"
	case strings.Contains(out, "VSYM-NATIVE-OK"):
		return out, "ok"
	}
	return out, "error"
}

func (n *nativeRunner) close() { os.RemoveAll(n.dir) }

// replayFile re-runs one counterexample natively: exit 1 if it reproduces.
func replayFile(repo, verif string, pc *propCfg, path string) int {
	var doc struct {
		Harness    string `json:"harness"`
		Pkg        string `json:"pkg"`
		HarnessDir string `json:"harness_dir"`
	}
	if err := readJSON(path, &doc); err != nil {
		fmt.Fprintln(os.Stderr, err)
		return 2
	}
	g := &groupCfg{Pkg: doc.Pkg, Harness: doc.HarnessDir}
	hdir := filepath.Join(verif, "harness", g.Harness)
	ld, err := loader.Load(loader.Config{Repo: repo, Verif: verif, Pkg: g.Pkg, HarnessDir: hdir, BuildDir: filepath.Join(verif, "build")})
	if err != nil {
		fmt.Fprintln(os.Stderr, err)
		return 2
	}
	nat, err := newNativeRunner(repo, verif, g, ld, []string{doc.Harness}, envOr("VERIF_TIER", "quick"))
	if err != nil {
		fmt.Fprintln(os.Stderr, err)
		return 2
	}
	defer nat.close()
	abs, _ := filepath.Abs(path)
	out, st := nat.run(doc.Harness, abs)
	fmt.Println(lastLines(out, 6))
	fmt.Println("native outcome:", st)
	if st == "assertfail" || st == "panic" {
		return 1
	}
	if st == "ok" {
		return 0
	}
	return 2
}

func runSideCheck(name, repo string) string {
	return "unknown side check"
}
