package main

import (
	"encoding/json"
	"flag"
	"fmt"
	"os"
	"regexp"
	"runtime/debug"
	"runtime/pprof"
	"sort"
	"strconv"
	"strings"
	"sync"
	"time"

	"gosym/interp"
	"gosym/loader"

	"golang.org/x/tools/go/ssa"
)

func main() {
	if len(os.Args) < 2 {
		fmt.Fprintln(os.Stderr, "usage: gosym run|check ...")
		os.Exit(2)
	}
	switch os.Args[1] {
	case "run":
		os.Exit(cmdRun(os.Args[2:]))
	case "check":
		os.Exit(cmdCheck(os.Args[2:]))
	default:
		fmt.Fprintln(os.Stderr, "unknown subcommand", os.Args[1])
		os.Exit(2)
	}
}

type runCfg struct {
	repo, verif, pkg, harness, match, out, solver, solverLog string
	workers, timeoutMS, maxInstr                              int
	trace, mapReverse, thorough                               bool
	deadline                                                  int
	prefix, extra                                             string
}

func cmdRun(args []string) int {
	fs := flag.NewFlagSet("run", flag.ExitOnError)
	var c runCfg
	fs.StringVar(&c.repo, "repo", envOr("VERIF_REPO", "/repo"), "repository under test")
	fs.StringVar(&c.verif, "verif", "/verif", "verif dir")
	fs.StringVar(&c.pkg, "pkg", "", "package, e.g. ./rockredis")
	fs.StringVar(&c.harness, "harness", "", "harness dir")
	fs.StringVar(&c.match, "match", "^Verif_", "regexp on harness function names")
	fs.StringVar(&c.out, "out", "", "write results JSON here")
	fs.StringVar(&c.solver, "solver", "z3-new", "solver")
	fs.StringVar(&c.solverLog, "solverlog", "", "solver log prefix")
	fs.IntVar(&c.workers, "workers", 16, "parallel harnesses")
	fs.IntVar(&c.timeoutMS, "timeout", 60000, "per query timeout ms")
	fs.IntVar(&c.maxInstr, "maxinstr", 3000000, "instruction budget per path")
	fs.BoolVar(&c.mapReverse, "mapreverse", false, "reverse map iteration order")
	fs.IntVar(&c.deadline, "deadline", 120, "per harness deadline in seconds")
	fs.BoolVar(&c.trace, "sites", false, "report decision sites")
	fs.StringVar(&c.prefix, "prefix", "", "forced first decisions, comma separated")
	fs.StringVar(&c.extra, "extra", "", "extra overlays: pkgdir=harnessdir[,pkgdir=harnessdir]")
	fs.BoolVar(&c.thorough, "thorough", false, "thorough tier shapes")
	prof := fs.String("cpuprofile", "", "write cpu profile")
	fs.Parse(args)
	if *prof != "" {
		f, _ := os.Create(*prof)
		pprof.StartCPUProfile(f)
		defer pprof.StopCPUProfile()
	}
	results, err := runHarnesses(c, nil)
	if err != nil {
		fmt.Fprintln(os.Stderr, "error:", err)
		return 2
	}
	bad := 0
	for _, r := range results {
		fmt.Printf("%-50s paths=%d infeasible=%d obl=%d disch=%d triv=%d viol=%d inconcl=%d reach=%v q=%d solver=%.2fs wall=%.2fs\n",
			r.Harness, r.Paths, r.Infeasible, r.Obligations, r.Discharged, r.Trivial, len(r.Violations), len(r.Inconclusive), r.Reach, r.Queries, r.SolverSec, r.WallSec)
		for i, v := range r.Violations {
			if i > 3 {
				break
			}
			fmt.Printf("   VIOL %s %q at %s\n      stack: %s\n      inputs: %v\n", v.Kind, v.Msg, v.Site, v.Stack, v.Inputs)
		}
		if r.DecisionSites != nil {
			type kv struct {
				k string
				v int
			}
			var l []kv
			for k, v := range r.DecisionSites {
				l = append(l, kv{k, v})
			}
			sort.Slice(l, func(i, j int) bool { return l[i].v > l[j].v })
			for i, e := range l {
				if i < 25 {
					fmt.Printf("   SITE %6d %s\n", e.v, e.k)
				}
			}
		}
		for _, n := range r.InitNotes {
			if !strings.Contains(n, "init skipped") {
				fmt.Printf("   INITNOTE %s\n", n)
			}
		}
		seen := map[string]bool{}
		for _, s := range r.Inconclusive {
			if !seen[s] {
				seen[s] = true
				if len(seen) < 6 {
					fmt.Printf("   INCONCLUSIVE %s\n", s)
				}
			}
		}
		if len(r.Violations) > 0 || len(r.Inconclusive) > 0 {
			bad++
		}
	}
	if c.out != "" {
		b, _ := json.MarshalIndent(results, "", " ")
		os.WriteFile(c.out, b, 0644)
	}
	if bad > 0 {
		return 1
	}
	return 0
}

func envOr(k, d string) string {
	if v := os.Getenv(k); v != "" {
		return v
	}
	return d
}

type harnessOpts func(name string, o *interp.Options)

func runHarnesses(c runCfg, tweak harnessOpts) ([]*interp.Result, error) {
	t0 := time.Now()
	extra := map[string]string{}
	if c.extra != "" {
		for _, kv := range strings.Split(c.extra, ",") {
			p := strings.SplitN(kv, "=", 2)
			extra[p[0]] = p[1]
		}
	}
	ld, err := loader.Load(loader.Config{Repo: c.repo, Verif: c.verif, Pkg: c.pkg, HarnessDir: c.harness, BuildDir: c.verif + "/build", Extra: extra})
	if err != nil {
		return nil, err
	}
	fmt.Fprintf(os.Stderr, "loaded %s in %.1fs\n", c.pkg, time.Since(t0).Seconds())
	re, err := regexp.Compile(c.match)
	if err != nil {
		return nil, err
	}
	var fns []*ssa.Function
	for name, m := range ld.Pkg.Members {
		if f, ok := m.(*ssa.Function); ok && re.MatchString(name) && f.Signature.Params().Len() == 0 {
			fns = append(fns, f)
		}
	}
	sort.Slice(fns, func(i, j int) bool { return fns[i].Name() < fns[j].Name() })
	if len(fns) == 0 {
		return nil, fmt.Errorf("no harness function matches %q in %s", c.match, c.pkg)
	}
	results := make([]*interp.Result, len(fns))
	var wg sync.WaitGroup
	sem := make(chan struct{}, c.workers)
	for i, f := range fns {
		wg.Add(1)
		go func(i int, f *ssa.Function) {
			defer wg.Done()
			sem <- struct{}{}
			defer func() { <-sem }()
			opts := interp.DefaultOptions()
			opts.Solver = c.solver
			opts.TimeoutMS = c.timeoutMS
			opts.MaxInstr = c.maxInstr
			opts.MapReverse = c.mapReverse
			opts.Trace = c.trace
			if c.prefix != "" {
				for _, x := range strings.Split(c.prefix, ",") {
					n, _ := strconv.Atoi(x)
					opts.ForcePrefix = append(opts.ForcePrefix, n)
				}
			}
			opts.Thorough = c.thorough
			opts.Deadline = time.Now().Add(time.Duration(c.deadline) * time.Second)
			if c.solverLog != "" {
				opts.SolverLog = c.solverLog + "." + f.Name() + ".smt2"
			}
			if tweak != nil {
				tweak(f.Name(), &opts)
			}
			in, err := interp.New(ld.Prog, opts)
			if err != nil {
				results[i] = &interp.Result{Harness: f.Name(), Inconclusive: []string{"engine: " + err.Error()}}
				return
			}
			defer in.Close()
			func() {
				defer func() {
					if r := recover(); r != nil {
						res := in.PartialResult()
						if res == nil {
							res = &interp.Result{Harness: f.Name()}
						}
						if ec, ok := r.(interp.EngineCrash); ok {
							res.Inconclusive = append(res.Inconclusive, fmt.Sprintf("engine-crash: %v at %s\n%s", ec.V, ec.Where, ec.Stack))
						} else {
							res.Inconclusive = append(res.Inconclusive, fmt.Sprintf("engine-crash: %v at %s\n%s", r, in.Where(), debug.Stack()))
						}
						results[i] = res
					}
				}()
				results[i] = in.Run(f)
			}()
			results[i].InitNotes = in.InitNotes()
		}(i, f)
	}
	wg.Wait()
	return results, nil
}

