package interp

import (
	"fmt"
	"go/types"

	"gosym/sym"

	"golang.org/x/tools/go/ssa"
)

func (in *Interp) callBuiltin(name string, args []Value, cc *ssa.CallCommon, isDefer bool) Value {
	c := in.ctx
	switch name {
	case "len":
		switch x := args[0].(type) {
		case Slice:
			return c.BVConst(uint64(x.len), 64)
		case *Str:
			return c.BVConst(uint64(len(x.b)), 64)
		case *MapObj:
			if x == nil {
				return c.BVConst(0, 64)
			}
			return c.BVConst(uint64(x.n), 64)
		case *ChanObj:
			if x == nil {
				return c.BVConst(0, 64)
			}
			return c.BVConst(uint64(len(x.buf)), 64)
		case *Agg:
			return c.BVConst(uint64(len(x.e)), 64)
		case Ptr:
			// pointer to array
			if x.c == nil {
				t := under(cc.Args[0].Type()).(*types.Pointer).Elem().Underlying().(*types.Array)
				return c.BVConst(uint64(t.Len()), 64)
			}
			return c.BVConst(uint64(x.c.length()), 64)
		}
	case "cap":
		switch x := args[0].(type) {
		case Slice:
			return c.BVConst(uint64(x.cap), 64)
		case *ChanObj:
			if x == nil {
				return c.BVConst(0, 64)
			}
			return c.BVConst(uint64(x.cap), 64)
		case *Agg:
			return c.BVConst(uint64(len(x.e)), 64)
		case Ptr:
			if x.c == nil {
				t := under(cc.Args[0].Type()).(*types.Pointer).Elem().Underlying().(*types.Array)
				return c.BVConst(uint64(t.Len()), 64)
			}
			return c.BVConst(uint64(x.c.length()), 64)
		}
	case "append":
		s := args[0].(Slice)
		var add []Value
		switch y := args[1].(type) {
		case Slice:
			for i := 0; i < y.len; i++ {
				add = append(add, in.load(y.arr.at(y.off+i)))
			}
		case *Str:
			for _, b := range y.b {
				add = append(add, b)
			}
		}
		if len(add) == 0 {
			return s
		}
		return in.appendVals(s, add, under(cc.Args[0].Type()).(*types.Slice).Elem())
	case "copy":
		d := args[0].(Slice)
		var src []Value
		switch y := args[1].(type) {
		case Slice:
			n := y.len
			if d.len < n {
				n = d.len
			}
			for i := 0; i < n; i++ {
				src = append(src, in.load(y.arr.at(y.off+i)))
			}
		case *Str:
			n := len(y.b)
			if d.len < n {
				n = d.len
			}
			for i := 0; i < n; i++ {
				src = append(src, y.b[i])
			}
		}
		for i, v := range src {
			in.store(d.arr.at(d.off+i), v)
		}
		return c.BVConst(uint64(len(src)), 64)
	case "delete":
		m, _ := args[0].(*MapObj)
		if m != nil {
			in.mapDelete(m, args[1])
		}
		return nil
	case "close":
		ch, _ := args[0].(*ChanObj)
		if ch == nil {
			in.throw("close of nil channel")
		}
		if ch.closed {
			in.throw("close of closed channel")
		}
		ch.closed = true
		return nil
	case "print", "println":
		return nil
	case "recover":
		fr := in.curFrame
		if fr != nil && fr.isDefer && fr.caller != nil && fr.caller.panicking != nil {
			v := fr.caller.panicking.val
			fr.caller.panicking = nil
			if iv, ok := v.(Iface); ok {
				return iv
			}
			return Iface{t: types.Typ[types.String], v: in.mkStr("panic")}
		}
		return Iface{}
	case "min", "max":
		res := args[0]
		_, signed, _ := intInfo(cc.Args[0].Type())
		for _, a := range args[1:] {
			x, y := res.(*sym.Term), a.(*sym.Term)
			var lt *sym.Term
			if x.S.K == sym.KFP {
				lt = c.FLt(y, x)
			} else if signed {
				lt = c.SLT(y, x)
			} else {
				lt = c.ULT(y, x)
			}
			if name == "max" {
				lt = c.Not(c.Or(lt, c.Eq(x, y)))
			}
			res = c.Ite(lt, y, x)
		}
		return res
	case "clear":
		switch x := args[0].(type) {
		case *MapObj:
			if x != nil {
				in.touchMap(x)
				x.keys, x.vals, x.dead, x.idx, x.n, x.nsym = nil, nil, nil, map[string]int{}, 0, 0
			}
		case Slice:
			z := in.zero(under(cc.Args[0].Type()).(*types.Slice).Elem())
			for i := 0; i < x.len; i++ {
				in.store(x.arr.at(x.off+i), in.copyVal(z))
			}
		}
		return nil
	case "ssa:wrapnilchk":
		if p, ok := args[0].(Ptr); ok && p.c == nil {
			in.throw("value method called using nil pointer")
		}
		return args[0]
	case "String": // unsafe.String(ptr, len)
		p := args[0].(Ptr)
		n := in.concretizeInt(args[1].(*sym.Term), "unsafe.String len")
		if n == 0 {
			return in.emptyStr
		}
		cells := in.elemRun(p, int(n))
		b := make([]*sym.Term, n)
		for i := range b {
			b[i] = cells[i].v.(*sym.Term)
		}
		return &Str{b}
	case "SliceData":
		s := args[0].(Slice)
		if s.arr == nil {
			return Ptr{}
		}
		if s.cap == 0 {
			return Ptr{&Cell{epoch: in.epoch, v: in.byteConst[0], sub: nil}}
		}
		in.elemOwner[s.arr.at(s.off)] = elemRef{s.arr, s.off}
		return Ptr{s.arr.at(s.off)}
	case "StringData":
		s := args[0].(*Str)
		sl := in.bytesToSlice(s.b)
		if sl.len == 0 {
			return Ptr{}
		}
		in.elemOwner[sl.arr.at(0)] = elemRef{sl.arr, 0}
		return Ptr{sl.arr.at(0)}
	case "Slice": // unsafe.Slice(ptr, len)
		p := args[0].(Ptr)
		n := in.concretizeInt(args[1].(*sym.Term), "unsafe.Slice len")
		if p.c == nil {
			return Slice{}
		}
		ref, ok := in.elemOwner[p.c]
		if !ok {
			panic(unmodelled{"unsafe.Slice of untracked pointer"})
		}
		return Slice{arr: ref.arr, off: ref.off, len: int(n), cap: int(n)}
	}
	panic(unmodelled{fmt.Sprintf("builtin %s on %T", name, firstOrNil(args))})
}

type elemRef struct {
	arr *Cell
	off int
}

func (in *Interp) elemRun(p Ptr, n int) []*Cell {
	ref, ok := in.elemOwner[p.c]
	if !ok {
		if n == 1 {
			return []*Cell{p.c}
		}
		panic(unmodelled{"unsafe pointer arithmetic over untracked pointer"})
	}
	for i := 0; i < n; i++ {
		ref.arr.at(ref.off + i)
	}
	return ref.arr.sub[ref.off : ref.off+n]
}

func firstOrNil(a []Value) Value {
	if len(a) == 0 {
		return nil
	}
	return a[0]
}

// appendVals implements append with Go-like aliasing: in place when capacity allows.
func (in *Interp) appendVals(s Slice, add []Value, et types.Type) Slice {
	need := s.len + len(add)
	if s.arr != nil && need <= s.cap {
		for i, v := range add {
			in.store(s.arr.at(s.off+s.len+i), in.copyVal(v))
		}
		return Slice{arr: s.arr, off: s.off, len: need, cap: s.cap}
	}
	newcap := s.cap * 2
	if s.cap >= 256 {
		newcap = s.cap + s.cap/4 + 192
	}
	if newcap < need {
		newcap = need
	}
	// mimic the runtime's rounding for small byte slices a little: at least 8
	if newcap < 8 && isByteType(et) {
		newcap = 8
	}
	z := in.zero(et)
	arr := in.newArrayCell(newcap, z)
	for i := 0; i < s.len; i++ {
		in.store(arr.at(i), in.load(s.arr.at(s.off+i)))
	}
	for i, v := range add {
		in.store(arr.at(s.len+i), in.copyVal(v))
	}
	return Slice{arr: arr, off: 0, len: need, cap: newcap}
}

func isByteType(t types.Type) bool {
	b, ok := under(t).(*types.Basic)
	return ok && b.Kind() == types.Uint8
}
