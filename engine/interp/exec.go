package interp

import (
	"fmt"
	"go/token"
	"go/types"
	"time"

	"gosym/sym"

	"golang.org/x/tools/go/ssa"
)

// runBlock executes one basic block; returns the successor, or done=true on Return.
func (in *Interp) runBlock(fr *frame, b *ssa.BasicBlock, prev *ssa.BasicBlock) (next *ssa.BasicBlock, done bool) {
	// phis first, simultaneously
	nphi := 0
	if prev != nil {
		var pidx int = -1
		for i, p := range b.Preds {
			if p == prev {
				pidx = i
				break
			}
		}
		var vals []Value
		for _, ins := range b.Instrs {
			phi, ok := ins.(*ssa.Phi)
			if !ok {
				break
			}
			vals = append(vals, in.get(fr, phi.Edges[pidx]))
			nphi++
		}
		for i := 0; i < nphi; i++ {
			fr.locals[b.Instrs[i].(*ssa.Phi)] = vals[i]
		}
	}
	in.res.Funcs[fr.fn.String()] += len(b.Instrs)
	in.nInstr += len(b.Instrs)
	in.res.Instrs += int64(len(b.Instrs))
	in.blockCount++
	if in.blockCount&0x3fff == 0 && !in.opts.Deadline.IsZero() && time.Now().After(in.opts.Deadline) {
		panic(boundExceeded{"deadline reached inside a path"})
	}
	if in.nInstr > in.opts.MaxInstr && !in.initMode {
		panic(boundExceeded{"instruction budget per path"})
	}
	if in.initMode && in.nInstr > 20000000 {
		panic(boundExceeded{"instruction budget for package init"})
	}
	for _, ins := range b.Instrs[nphi:] {
		fr.site = ins
		switch x := ins.(type) {
		case *ssa.Jump:
			return b.Succs[0], false
		case *ssa.If:
			c := in.get(fr, x.Cond).(*sym.Term)
			if in.branch(c) {
				return b.Succs[0], false
			}
			return b.Succs[1], false
		case *ssa.Return:
			switch len(x.Results) {
			case 0:
				fr.result = nil
			case 1:
				fr.result = in.get(fr, x.Results[0])
			default:
				t := make(Tuple, len(x.Results))
				for i, r := range x.Results {
					t[i] = in.returnOperand(fr, x, r)
				}
				fr.result = t
			}
			return nil, true
		case *ssa.Panic:
			v := in.get(fr, x.X)
			panic(goPanicSignal{&goPanic{val: v, msg: in.panicMsg(v), stack: in.stackString()}})
		case *ssa.RunDefers:
			for len(fr.defers) > 0 {
				d := fr.defers[len(fr.defers)-1]
				fr.defers = fr.defers[:len(fr.defers)-1]
				_, p := in.callValue(d.fn, d.args, d.call, ins, true)
				if p != nil {
					panic(goPanicSignal{p})
				}
			}
		default:
			in.exec(fr, ins)
		}
	}
	panic("block without terminator")
}

// returnOperand evaluates one operand of a multi-value return. go/ssa reads a plain variable operand before it
// evaluates the calls of the same return statement; the gc compiler reads it after them
// ("return m, m.Unmarshal(buf)" returns the filled m). The spec leaves the order open; we follow gc,
// which is what runs: a load of a local variable that belongs to this return statement and is followed by a
// call in the same block is redone here.
func (in *Interp) returnOperand(fr *frame, ret *ssa.Return, r ssa.Value) Value {
	u, ok := r.(*ssa.UnOp)
	if !ok || u.Op != token.MUL || u.Block() != ret.Block() || u.Pos() == token.NoPos || ret.Pos() == token.NoPos || u.Pos() < ret.Pos() {
		return in.get(fr, r)
	}
	if _, isAlloc := u.X.(*ssa.Alloc); !isAlloc {
		return in.get(fr, r)
	}
	seen, callAfter := false, false
	for _, ins := range ret.Block().Instrs {
		if ins == ssa.Instruction(u) {
			seen = true
			continue
		}
		if seen {
			if _, isCall := ins.(*ssa.Call); isCall {
				callAfter = true
				break
			}
		}
	}
	if !callAfter {
		return in.get(fr, r)
	}
	p := in.get(fr, u.X).(Ptr)
	return in.load(p.c)
}

func (in *Interp) panicMsg(v Value) string {
	if i, ok := v.(Iface); ok {
		if i.t == nil {
			return "panic(nil)"
		}
		if s, ok := i.v.(*Str); ok {
			if cs, ok := s.Concrete(); ok {
				return cs
			}
			return "<symbolic string>"
		}
		// error values: try the common errorString shape (*struct{ s string })
		if p, ok := i.v.(Ptr); ok && p.c != nil && p.c.length() >= 1 {
			if s, ok := p.c.sub[0].v.(*Str); ok {
				if cs, ok := s.Concrete(); ok {
					return i.t.String() + ": " + cs
				}
			}
		}
		return "panic value of type " + i.t.String()
	}
	return fmt.Sprintf("panic(%T)", v)
}

func (in *Interp) exec(fr *frame, ins ssa.Instruction) {
	switch x := ins.(type) {
	case *ssa.DebugRef:
	case *ssa.Alloc:
		fr.locals[x] = Ptr{in.allocType(x.Type().(*types.Pointer).Elem())}
	case *ssa.UnOp:
		fr.locals[x] = in.unop(fr, x)
	case *ssa.BinOp:
		fr.locals[x] = in.binop(x.Op, x.X.Type(), in.get(fr, x.X), in.get(fr, x.Y))
	case *ssa.Call:
		v, p := in.doCall(fr, &x.Call, x, false)
		if p != nil {
			panic(goPanicSignal{p})
		}
		fr.locals[x] = v
	case *ssa.Defer:
		fn, args := in.prepareCall(fr, &x.Call)
		fr.defers = append(fr.defers, &deferred{fn: fn, args: args, call: &x.Call})
	case *ssa.Go:
		if in.initMode {
			return
		}
		if in.goStub(fr, x) {
			return
		}
		panic(unmodelled{"go statement"})
	case *ssa.ChangeInterface:
		fr.locals[x] = in.get(fr, x.X)
	case *ssa.ChangeType:
		fr.locals[x] = in.get(fr, x.X)
	case *ssa.Convert:
		fr.locals[x] = in.convert(in.get(fr, x.X), x.X.Type(), x.Type())
	case *ssa.MultiConvert:
		fr.locals[x] = in.convert(in.get(fr, x.X), x.X.Type(), x.Type())
	case *ssa.MakeInterface:
		fr.locals[x] = Iface{t: x.X.Type(), v: in.get(fr, x.X)}
	case *ssa.Extract:
		fr.locals[x] = in.get(fr, x.Tuple).(Tuple)[x.Index]
	case *ssa.Field:
		fr.locals[x] = in.get(fr, x.X).(*Agg).e[x.Field]
	case *ssa.FieldAddr:
		p := in.get(fr, x.X).(Ptr)
		if p.c == nil {
			in.throw("runtime error: invalid memory address or nil pointer dereference")
		}
		fr.locals[x] = Ptr{p.c.sub[x.Field]}
	case *ssa.Index:
		fr.locals[x] = in.index(fr, x)
	case *ssa.IndexAddr:
		fr.locals[x] = in.indexAddr(fr, x)
	case *ssa.Lookup:
		fr.locals[x] = in.lookup(fr, x)
	case *ssa.MakeChan:
		n := in.concretize(in.get(fr, x.Size).(*sym.Term), "chan size")
		fr.locals[x] = &ChanObj{cap: int(n), epoch: in.epoch}
	case *ssa.MakeClosure:
		fn := x.Fn.(*ssa.Function)
		env := make([]Value, len(x.Bindings))
		for i, b := range x.Bindings {
			env[i] = in.get(fr, b)
		}
		fr.locals[x] = &Func{fn: fn, env: env}
	case *ssa.MakeMap:
		fr.locals[x] = in.newMap(under(x.Type()).(*types.Map).Key())
	case *ssa.MakeSlice:
		ln := in.concretizeInt(in.get(fr, x.Len).(*sym.Term), "make len")
		cp := in.concretizeInt(in.get(fr, x.Cap).(*sym.Term), "make cap")
		if ln < 0 || ln > int64(in.opts.MaxAlloc)*64 {
			in.throw("runtime error: makeslice: len out of range")
		}
		if cp < ln || cp > int64(in.opts.MaxAlloc)*64 {
			in.throw("runtime error: makeslice: cap out of range")
		}
		z := in.zero(under(x.Type()).(*types.Slice).Elem())
		fr.locals[x] = Slice{arr: in.newArrayCell(int(cp), z), len: int(ln), cap: int(cp)}
	case *ssa.MapUpdate:
		m, _ := in.get(fr, x.Map).(*MapObj)
		if m == nil {
			in.throw("assignment to entry in nil map")
		}
		in.mapSet(m, in.get(fr, x.Key), in.copyVal(in.get(fr, x.Value)))
	case *ssa.Next:
		fr.locals[x] = in.next(fr, x)
	case *ssa.Range:
		fr.locals[x] = in.rangeOf(fr, x)
	case *ssa.Phi:
		panic("phi in the middle of a block")
	case *ssa.Select:
		fr.locals[x] = in.selectStmt(fr, x)
	case *ssa.Send:
		ch, _ := in.get(fr, x.Chan).(*ChanObj)
		in.chanSend(ch, in.get(fr, x.X), true)
	case *ssa.Slice:
		fr.locals[x] = in.sliceOp(fr, x)
	case *ssa.SliceToArrayPointer:
		s := in.get(fr, x.X).(Slice)
		n := int(under(x.Type()).(*types.Pointer).Elem().Underlying().(*types.Array).Len())
		if s.len < n {
			in.throw("runtime error: cannot convert slice to array pointer: length too short")
		}
		if s.arr == nil {
			fr.locals[x] = Ptr{}
		} else {
			for i := 0; i < n; i++ {
				s.arr.at(s.off + i)
			}
			fr.locals[x] = Ptr{&Cell{sub: s.arr.sub[s.off : s.off+n], epoch: s.arr.epoch}}
		}
	case *ssa.Store:
		p := in.get(fr, x.Addr).(Ptr)
		if p.c == nil {
			in.throw("runtime error: invalid memory address or nil pointer dereference")
		}
		in.store(p.c, in.copyVal(in.get(fr, x.Val)))
	case *ssa.TypeAssert:
		fr.locals[x] = in.typeAssert(fr, x)
	default:
		panic(unmodelled{fmt.Sprintf("instruction %T", ins)})
	}
}

func (in *Interp) concretizeInt(t *sym.Term, why string) int64 {
	if t.IsConst() {
		return t.SignedVal()
	}
	v := in.concretize(t, why)
	return in.ctx.BVConst(v, t.S.W).SignedVal()
}

func (in *Interp) unop(fr *frame, x *ssa.UnOp) Value {
	v := in.get(fr, x.X)
	c := in.ctx
	switch x.Op {
	case token.MUL: // load
		p := v.(Ptr)
		if p.c == nil {
			in.throw("runtime error: invalid memory address or nil pointer dereference")
		}
		return in.load(p.c)
	case token.NOT:
		return c.Not(v.(*sym.Term))
	case token.SUB:
		t := v.(*sym.Term)
		if t.S.K == sym.KFP {
			return c.FNeg(t)
		}
		return c.Neg(t)
	case token.XOR:
		return c.BNot(v.(*sym.Term))
	case token.ARROW:
		ch, _ := v.(*ChanObj)
		val, ok := in.chanRecv(ch, under(x.X.Type()).(*types.Chan).Elem(), true)
		if x.CommaOk {
			return Tuple{val, c.BoolConst(ok)}
		}
		return val
	}
	panic(unmodelled{"unop " + x.Op.String()})
}

func (in *Interp) binop(op token.Token, xt types.Type, a, b Value) Value {
	c := in.ctx
	switch op {
	case token.EQL:
		return in.valuesEqual(a, b)
	case token.NEQ:
		return c.Not(in.valuesEqual(a, b))
	}
	switch x := a.(type) {
	case *Str:
		y := b.(*Str)
		switch op {
		case token.ADD:
			if len(x.b) == 0 {
				return y
			}
			if len(y.b) == 0 {
				return x
			}
			nb := make([]*sym.Term, 0, len(x.b)+len(y.b))
			nb = append(nb, x.b...)
			nb = append(nb, y.b...)
			return &Str{nb}
		case token.LSS:
			return in.strLess(x.b, y.b)
		case token.LEQ:
			return c.Not(in.strLess(y.b, x.b))
		case token.GTR:
			return in.strLess(y.b, x.b)
		case token.GEQ:
			return c.Not(in.strLess(x.b, y.b))
		}
	case *sym.Term:
		y := b.(*sym.Term)
		if x.S.K == sym.KBool {
			switch op {
			case token.AND, token.LAND:
				return c.And(x, y)
			case token.OR, token.LOR:
				return c.Or(x, y)
			case token.XOR:
				return c.Not(c.Eq(x, y))
			case token.AND_NOT:
				return c.And(x, c.Not(y))
			}
		}
		if x.S.K == sym.KFP {
			switch op {
			case token.ADD:
				return c.FAdd(x, y)
			case token.SUB:
				return c.FSub(x, y)
			case token.MUL:
				return c.FMul(x, y)
			case token.QUO:
				return c.FDiv(x, y)
			case token.LSS:
				return c.FLt(x, y)
			case token.LEQ:
				return c.FLe(x, y)
			case token.GTR:
				return c.FLt(y, x)
			case token.GEQ:
				return c.FLe(y, x)
			}
		}
		if x.S.K == sym.KBV {
			_, signed, _ := intInfo(xt)
			switch op {
			case token.ADD:
				return c.Add(x, y)
			case token.SUB:
				return c.Sub(x, y)
			case token.MUL:
				return c.Mul(x, y)
			case token.QUO, token.REM:
				// division by zero panics
				z := c.Eq(y, c.BVConst(0, y.S.W))
				if in.branch(z) {
					in.throw("runtime error: integer divide by zero")
				}
				// division of a provably small non-negative value by a constant: compute in a narrow width
				// (64-bit division circuits are what makes these queries slow; the result is the same under
				// the bounds already on the path condition)
				if y.IsConst() && y.C > 0 {
					if rx := in.urange(x, 6); rx.hi < 1<<16 && y.C < 1<<16 {
						nw := 16
						if rx.hi < 1<<8 && y.C < 1<<8 {
							nw = 8
						}
						nx, ny := c.Extract(x, nw-1, 0), c.BVConst(y.C, nw)
						if op == token.QUO {
							return c.ZExt(c.UDiv(nx, ny), x.S.W)
						}
						return c.ZExt(c.URem(nx, ny), x.S.W)
					}
				}
				if op == token.QUO {
					if signed {
						return c.SDiv(x, y)
					}
					return c.UDiv(x, y)
				}
				if signed {
					return c.SRem(x, y)
				}
				return c.URem(x, y)
			case token.AND:
				return c.BAnd(x, y)
			case token.OR:
				return c.BOr(x, y)
			case token.XOR:
				return c.BXor(x, y)
			case token.AND_NOT:
				return c.BAnd(x, c.BNot(y))
			case token.SHL, token.SHR:
				// shift count y may have a different width; Go: count is unsigned (or panics if negative signed)
				yy := y
				if yy.S.W != x.S.W {
					if yy.S.W < x.S.W {
						yy = c.ZExt(yy, x.S.W)
					} else {
						// wider count: saturate
						big := c.ULE(c.BVConst(uint64(x.S.W), yy.S.W), yy)
						lo := c.Extract(yy, x.S.W-1, 0)
						yy = c.Ite(big, c.BVConst(uint64(x.S.W), x.S.W), lo)
					}
				}
				if op == token.SHL {
					return c.Shl(x, yy)
				}
				if signed {
					return c.AShr(x, yy)
				}
				return c.LShr(x, yy)
			case token.LSS:
				if signed {
					return c.SLT(x, y)
				}
				return c.ULT(x, y)
			case token.LEQ:
				if signed {
					return c.SLE(x, y)
				}
				return c.ULE(x, y)
			case token.GTR:
				if signed {
					return c.SLT(y, x)
				}
				return c.ULT(y, x)
			case token.GEQ:
				if signed {
					return c.SLE(y, x)
				}
				return c.ULE(y, x)
			}
		}
	}
	panic(unmodelled{fmt.Sprintf("binop %s on %T (%s)", op, a, xt)})
}

func (in *Interp) convert(v Value, from, to types.Type) Value {
	c := in.ctx
	uf, ut := under(from), under(to)
	// pointer / unsafe.Pointer / same-representation conversions
	switch ut.(type) {
	case *types.Pointer:
		return v
	case *types.Slice:
		if s, ok := v.(*Str); ok {
			el := under(ut.(*types.Slice).Elem()).(*types.Basic)
			if el.Kind() == types.Uint8 {
				return in.bytesToSlice(s.b)
			}
			// []rune(string): ASCII only
			cs, ok := s.Concrete()
			if !ok {
				panic(unmodelled{"[]rune of symbolic string"})
			}
			rs := []rune(cs)
			arr := in.newArrayCell(len(rs), c.BVConst(0, 32))
			for i, r := range rs {
				arr.at(i).v = c.BVConst(uint64(r), 32)
			}
			return Slice{arr: arr, len: len(rs), cap: len(rs)}
		}
		return v
	}
	if tb, ok := ut.(*types.Basic); ok {
		if tb.Kind() == types.UnsafePointer {
			return v
		}
		if isString(tb) {
			switch x := v.(type) {
			case *Str:
				return x
			case Slice:
				el := under(uf.(*types.Slice).Elem()).(*types.Basic)
				if el.Kind() == types.Uint8 {
					if x.len == 0 {
						return in.emptyStr
					}
					return &Str{in.sliceBytes(x)}
				}
				// string([]rune)
				var rs []rune
				for i := 0; i < x.len; i++ {
					t := x.arr.at(x.off+i).v.(*sym.Term)
					if !t.IsConst() {
						panic(unmodelled{"string of symbolic runes"})
					}
					rs = append(rs, rune(t.SignedVal()))
				}
				return in.mkStr(string(rs))
			case *sym.Term:
				// string(rune)
				if x.IsConst() {
					return in.mkStr(string(rune(x.SignedVal())))
				}
				// symbolic rune: fork on ASCII
				if in.branch(c.ULT(x, c.BVConst(0x80, x.S.W))) {
					return &Str{[]*sym.Term{c.Extract(x, 7, 0)}}
				}
				panic(unmodelled{"string(rune) of symbolic non-ASCII rune"})
			}
		}
		if w, _, ok := intInfo(tb); ok {
			t, isT := v.(*sym.Term)
			if !isT {
				if _, isP := v.(Ptr); isP {
					// uintptr(unsafe.Pointer)
					panic(unmodelled{"pointer to integer conversion"})
				}
				panic(unmodelled{fmt.Sprintf("convert %T to integer", v)})
			}
			if t.S.K == sym.KFP {
				_, signed, _ := intInfo(tb)
				if signed {
					return c.FToSInt(t, w)
				}
				return c.FToUInt(t, w)
			}
			_, fsigned, _ := intInfo(uf)
			if t.S.W >= w {
				return c.Extract(t, w-1, 0)
			}
			if fsigned {
				return c.SExt(t, w)
			}
			return c.ZExt(t, w)
		}
		if isFloat(tb) {
			t := v.(*sym.Term)
			if t.S.K == sym.KFP {
				if tb.Kind() == types.Float32 {
					panic(unmodelled{"float32 conversion"})
				}
				return t
			}
			_, fsigned, _ := intInfo(uf)
			if fsigned {
				return c.FFromSInt(t)
			}
			return c.FFromUInt(t)
		}
		if isBool(tb) {
			return v
		}
	}
	panic(unmodelled{fmt.Sprintf("convert %s -> %s", from, to)})
}

func (in *Interp) prepareCall(fr *frame, cc *ssa.CallCommon) (Value, []Value) {
	var args []Value
	if cc.IsInvoke() {
		recv := in.get(fr, cc.Value).(Iface)
		if recv.t == nil {
			if cc.Method.Pkg() != nil && isNoopPkg(cc.Method.Pkg().Path()) {
				// a metrics / logging object handed out by a no-op stub: its methods are no-ops too
				sig := cc.Method.Type().(*types.Signature)
				return &Func{name: "noop", native: func(in *Interp, args []Value) Value {
					r := sig.Results()
					switch r.Len() {
					case 0:
						return nil
					case 1:
						return in.zero(r.At(0).Type())
					}
					return in.zero(r)
				}}, nil
			}
			in.throw("runtime error: invalid memory address or nil pointer dereference (method call on nil interface)")
		}
		fn := in.lookupMethod(recv.t, cc.Method)
		args = append(args, recv.v)
		for _, a := range cc.Args {
			args = append(args, in.copyVal(in.get(fr, a)))
		}
		return in.funcVal(fn), args
	}
	for _, a := range cc.Args {
		args = append(args, in.copyVal(in.get(fr, a)))
	}
	return in.get(fr, cc.Value), args
}

func (in *Interp) lookupMethod(t types.Type, m *types.Func) *ssa.Function {
	ms := in.prog.MethodSets.MethodSet(t)
	sel := ms.Lookup(m.Pkg(), m.Name())
	if sel == nil {
		panic(unmodelled{"method " + m.Name() + " not found on " + t.String()})
	}
	fn := in.prog.MethodValue(sel)
	if fn == nil {
		panic(unmodelled{"no method value for " + m.Name() + " on " + t.String()})
	}
	return fn
}

func (in *Interp) doCall(fr *frame, cc *ssa.CallCommon, site ssa.Instruction, isDefer bool) (Value, *goPanic) {
	fn, args := in.prepareCall(fr, cc)
	return in.callValue(fn, args, cc, site, isDefer)
}

// idx64 widens an index operand to 64 bits according to its type's signedness (a negative index stays negative,
// i.e. a huge unsigned value that fails the bounds check; a byte index can address all 256 elements).
func (in *Interp) idx64(v ssa.Value, t *sym.Term) *sym.Term {
	if t.S.W >= 64 {
		return t
	}
	if _, signed, ok := intInfo(v.Type()); ok && signed {
		return in.ctx.SExt(t, 64)
	}
	return in.ctx.ZExt(t, 64)
}

func (in *Interp) index(fr *frame, x *ssa.Index) Value {
	base := in.get(fr, x.X)
	idx := in.idx64(x.Index, in.get(fr, x.Index).(*sym.Term))
	c := in.ctx
	switch b := base.(type) {
	case *Agg:
		return in.selectElem(len(b.e), idx, func(i int) Value { return b.e[i] })
	case *Str:
		return in.selectElem(len(b.b), idx, func(i int) Value { return b.b[i] })
	}
	_ = c
	panic(unmodelled{fmt.Sprintf("index on %T", base)})
}

// selectElem returns elem(idx) with bounds check; symbolic index over scalar elements becomes an ite chain.
func (in *Interp) selectElem(n int, idx *sym.Term, elem func(int) Value) Value {
	c := in.ctx
	if idx.IsConst() {
		i := idx.SignedVal()
		if i < 0 || i >= int64(n) {
			in.throw(fmt.Sprintf("runtime error: index out of range [%d] with length %d", i, n))
		}
		return elem(int(i))
	}
	inb := c.ULT(idx, c.BVConst(uint64(n), idx.S.W))
	if !in.branch(inb) {
		in.throw(fmt.Sprintf("runtime error: index out of range [symbolic] with length %d", n))
	}
	// scalar ite chain if all elements are terms of the same sort
	if n > 0 && n <= 256 {
		first, ok := elem(0).(*sym.Term)
		if ok {
			res := first
			all := true
			for i := 1; i < n; i++ {
				t, ok := elem(i).(*sym.Term)
				if !ok || t.S != first.S {
					all = false
					break
				}
				res = c.Ite(c.Eq(idx, c.BVConst(uint64(i), idx.S.W)), t, res)
			}
			if all {
				return res
			}
		}
	}
	i := in.concretize(idx, "index")
	return elem(int(i))
}

func (in *Interp) indexAddr(fr *frame, x *ssa.IndexAddr) Value {
	base := in.get(fr, x.X)
	idx := in.idx64(x.Index, in.get(fr, x.Index).(*sym.Term))
	var arr *Cell
	off, n := 0, 0
	switch b := base.(type) {
	case Slice:
		arr, off, n = b.arr, b.off, b.len
	case Ptr:
		if b.c == nil {
			in.throw("runtime error: invalid memory address or nil pointer dereference")
		}
		arr, n = b.c, b.c.length()
	default:
		panic(unmodelled{fmt.Sprintf("indexaddr on %T", base)})
	}
	if idx.IsConst() {
		i := idx.SignedVal()
		if i < 0 || i >= int64(n) {
			in.throw(fmt.Sprintf("runtime error: index out of range [%d] with length %d", i, n))
		}
		return Ptr{arr.at(off + int(i))}
	}
	inb := in.ctx.ULT(idx, in.ctx.BVConst(uint64(n), idx.S.W))
	if !in.branch(inb) {
		in.throw(fmt.Sprintf("runtime error: index out of range [symbolic] with length %d", n))
	}
	i := in.concretize(idx, "index address")
	return Ptr{arr.at(off + int(i))}
}

func (in *Interp) lookup(fr *frame, x *ssa.Lookup) Value {
	base := in.get(fr, x.X)
	key := in.get(fr, x.Index)
	switch b := base.(type) {
	case *Str:
		return in.selectElem(len(b.b), in.idx64(x.Index, key.(*sym.Term)), func(i int) Value { return b.b[i] })
	case *MapObj:
		v, ok := in.mapGet(b, key)
		if !ok {
			v = in.zero(under(x.X.Type()).(*types.Map).Elem())
		} else {
			v = in.copyVal(v)
		}
		if x.CommaOk {
			return Tuple{v, in.ctx.BoolConst(ok)}
		}
		return v
	}
	panic(unmodelled{fmt.Sprintf("lookup on %T", base)})
}

func (in *Interp) rangeOf(fr *frame, x *ssa.Range) Value {
	base := in.get(fr, x.X)
	switch b := base.(type) {
	case *MapObj:
		it := &RangeIter{m: b}
		if b != nil {
			for i, k := range b.keys {
				if !b.dead[i] {
					it.keys = append(it.keys, k)
				}
			}
			if in.opts.MapReverse {
				for i, j := 0, len(it.keys)-1; i < j; i, j = i+1, j-1 {
					it.keys[i], it.keys[j] = it.keys[j], it.keys[i]
				}
			}
		}
		return it
	case *Str:
		return &RangeIter{s: b}
	}
	panic(unmodelled{fmt.Sprintf("range over %T", base)})
}

func (in *Interp) next(fr *frame, x *ssa.Next) Value {
	it := in.get(fr, x.Iter).(*RangeIter)
	c := in.ctx
	if x.IsString {
		if it.pos >= len(it.s.b) {
			return Tuple{c.False, c.BVConst(0, 64), c.BVConst(0, 32)}
		}
		b := it.s.b[it.pos]
		if !b.IsConst() {
			if !in.branch(c.ULT(b, c.BVConst(0x80, 8))) {
				panic(unmodelled{"range over string with symbolic non-ASCII byte"})
			}
			i := it.pos
			it.pos++
			return Tuple{c.True, c.BVConst(uint64(i), 64), c.ZExt(b, 32)}
		}
		cs := make([]byte, 0, 4)
		for j := it.pos; j < len(it.s.b) && j < it.pos+4; j++ {
			if !it.s.b[j].IsConst() {
				break
			}
			cs = append(cs, byte(it.s.b[j].C))
		}
		r, sz := decodeRune(cs)
		i := it.pos
		it.pos += sz
		return Tuple{c.True, c.BVConst(uint64(i), 64), c.BVConst(uint64(r), 32)}
	}
	tk := x.Type().(*types.Tuple)
	for it.pos < len(it.keys) {
		k := it.keys[it.pos]
		it.pos++
		// entry may have been deleted meanwhile
		found := -1
		if it.m.nsym == 0 {
			if ks, ok := keyString(k); ok {
				if i, ok := it.m.idx[ks]; ok {
					found = i
				}
			}
		}
		if found < 0 {
			for i := range it.m.keys {
				if !it.m.dead[i] && it.m.keys[i] == k {
					found = i
					break
				}
			}
			if found < 0 {
				// fall back to structural identity
				for i := range it.m.keys {
					if !it.m.dead[i] {
						e := in.valuesEqual(it.m.keys[i], k)
						if e.IsTrue() {
							found = i
							break
						}
					}
				}
			}
		}
		if found < 0 {
			continue
		}
		var kv, vv Value = k, in.copyVal(it.m.vals[found])
		if _, inv := tk.At(1).Type().(*types.Basic); inv && tk.At(1).Type().(*types.Basic).Kind() == types.Invalid {
			kv = nil
		}
		if b, inv := tk.At(2).Type().(*types.Basic); inv && b.Kind() == types.Invalid {
			vv = nil
		}
		return Tuple{c.True, kv, vv}
	}
	return Tuple{c.False, in.zeroOrNil(tk.At(1).Type()), in.zeroOrNil(tk.At(2).Type())}
}

func (in *Interp) zeroOrNil(t types.Type) Value {
	if b, ok := t.(*types.Basic); ok && b.Kind() == types.Invalid {
		return nil
	}
	return in.zero(t)
}

func decodeRune(b []byte) (rune, int) {
	s := string(b)
	for _, r := range s {
		n := len(string(r))
		if r == 0xFFFD {
			n = 1
		}
		return r, n
	}
	return 0xFFFD, 1
}

func (in *Interp) sliceOp(fr *frame, x *ssa.Slice) Value {
	base := in.get(fr, x.X)
	getIdx := func(v ssa.Value, def int64) int64 {
		if v == nil {
			return def
		}
		t := in.get(fr, v).(*sym.Term)
		if t.IsConst() {
			return t.SignedVal()
		}
		return -12345678 // marker: symbolic
	}
	var ln, cp int
	var arr *Cell
	var off int
	var str *Str
	switch b := base.(type) {
	case Slice:
		ln, cp, arr, off = b.len, b.cap, b.arr, b.off
	case *Str:
		ln, cp, str = len(b.b), len(b.b), b
	case Ptr:
		if b.c == nil {
			in.throw("runtime error: invalid memory address or nil pointer dereference")
		}
		ln, cp, arr, off = b.c.length(), b.c.length(), b.c, 0
	default:
		panic(unmodelled{fmt.Sprintf("slice of %T", base)})
	}
	// symbolic bounds: check then concretize
	sym3 := func(v ssa.Value, def int64, why string) int64 {
		r := getIdx(v, def)
		if r != -12345678 {
			return r
		}
		t := in.get(fr, v).(*sym.Term)
		// bounds check first so that an out-of-range value is one panic path rather than many
		inb := in.ctx.ULE(t, in.ctx.BVConst(uint64(cp), t.S.W))
		if !in.branch(inb) {
			in.throw("runtime error: slice bounds out of range [symbolic " + why + "]")
		}
		return in.concretizeInt(t, "slice bound "+why)
	}
	lo := sym3(x.Low, 0, "low")
	hi := sym3(x.High, int64(ln), "high")
	mx := sym3(x.Max, int64(cp), "max")
	if str != nil {
		if lo < 0 || hi < lo || hi > int64(ln) {
			in.throw(fmt.Sprintf("runtime error: slice bounds out of range [%d:%d] with length %d", lo, hi, ln))
		}
		if lo == 0 && hi == int64(ln) {
			return str
		}
		return &Str{str.b[lo:hi]}
	}
	if lo < 0 || hi < lo || mx < hi || mx > int64(cp) {
		if hi > int64(cp) || hi < 0 {
			in.throw(fmt.Sprintf("runtime error: slice bounds out of range [:%d] with capacity %d", hi, cp))
		}
		in.throw(fmt.Sprintf("runtime error: slice bounds out of range [%d:%d:%d] with capacity %d", lo, hi, mx, cp))
	}
	if arr == nil {
		return Slice{}
	}
	return Slice{arr: arr, off: off + int(lo), len: int(hi - lo), cap: int(mx - lo)}
}

func (in *Interp) typeAssert(fr *frame, x *ssa.TypeAssert) Value {
	v := in.get(fr, x.X).(Iface)
	var ok bool
	var res Value
	if _, isIface := under(x.AssertedType).(*types.Interface); isIface {
		if v.t != nil {
			ok = types.Implements(v.t, under(x.AssertedType).(*types.Interface))
		}
		res = v
		if !ok {
			res = Iface{}
		}
	} else {
		ok = v.t != nil && types.Identical(v.t, x.AssertedType)
		if ok {
			res = v.v
		} else {
			res = in.zero(x.AssertedType)
		}
	}
	if x.CommaOk {
		return Tuple{res, in.ctx.BoolConst(ok)}
	}
	if !ok {
		ts := "nil"
		if v.t != nil {
			ts = v.t.String()
		}
		in.throw("interface conversion: interface is " + ts + ", not " + x.AssertedType.String())
	}
	return res
}

// ---- channels (sequential model: buffered FIFO only) ----

func (in *Interp) chanSend(ch *ChanObj, v Value, blocking bool) bool {
	if ch == nil {
		if blocking {
			panic(unmodelled{"send on nil channel blocks forever"})
		}
		return false
	}
	if ch.closed {
		in.throw("send on closed channel")
	}
	if len(ch.buf) < ch.cap {
		ch.buf = append(ch.buf, v)
		return true
	}
	if blocking {
		panic(unmodelled{"blocking channel send"})
	}
	return false
}

func (in *Interp) chanRecv(ch *ChanObj, et types.Type, blocking bool) (Value, bool) {
	if ch == nil {
		if blocking {
			panic(unmodelled{"receive on nil channel blocks forever"})
		}
		return nil, false
	}
	if len(ch.buf) > 0 {
		v := ch.buf[0]
		ch.buf = ch.buf[1:]
		return v, true
	}
	if ch.closed {
		return in.zero(et), false
	}
	if blocking {
		panic(unmodelled{"blocking channel receive"})
	}
	return nil, false
}

func (in *Interp) selectStmt(fr *frame, x *ssa.Select) Value {
	c := in.ctx
	// result tuple: (index int, recvOk bool, recv values...)
	nrecv := 0
	for _, st := range x.States {
		if st.Dir == types.RecvOnly {
			nrecv++
		}
	}
	res := make(Tuple, 2+nrecv)
	res[1] = c.False
	ri := 0
	recvSlot := make([]int, len(x.States))
	for i, st := range x.States {
		if st.Dir == types.RecvOnly {
			recvSlot[i] = 2 + ri
			res[2+ri] = in.zero(under(st.Chan.Type()).(*types.Chan).Elem())
			ri++
		}
	}
	for i, st := range x.States {
		ch, _ := in.get(fr, st.Chan).(*ChanObj)
		if st.Dir == types.SendOnly {
			if ch != nil && (len(ch.buf) < ch.cap || ch.closed) {
				in.chanSend(ch, in.get(fr, st.Send), false)
				res[0] = c.BVConst(uint64(i), 64)
				return res
			}
		} else {
			if ch != nil && (len(ch.buf) > 0 || ch.closed) {
				v, ok := in.chanRecv(ch, under(st.Chan.Type()).(*types.Chan).Elem(), false)
				res[0] = c.BVConst(uint64(i), 64)
				res[1] = c.BoolConst(ok)
				res[recvSlot[i]] = v
				return res
			}
		}
	}
	if !x.Blocking {
		res[0] = c.BVConst(^uint64(0), 64)
		return res
	}
	panic(unmodelled{"blocking select with no ready case"})
}

// goStub: with vsym.InlineGoroutines() a go statement runs the new goroutine to completion at the spawn point
// (one legal schedule; a goroutine that would block is reported as unmodelled). Otherwise unmodelled.
func (in *Interp) goStub(fr *frame, x *ssa.Go) bool {
	if !in.inlineGo {
		return false
	}
	fn, args := in.prepareCall(fr, &x.Call)
	_, p := in.callValue(fn, args, &x.Call, x, true)
	if p != nil {
		// a panic that kills a goroutine kills the program
		panic(goPanicSignal{p})
	}
	return true
}
