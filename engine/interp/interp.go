package interp

import (
	"fmt"
	"go/constant"
	"go/token"
	"go/types"
	"os"
	"regexp"
	"runtime/debug"
	"sort"
	"strings"
	"time"

	"gosym/sym"

	"golang.org/x/tools/go/ssa"
)

type Options struct {
	MaxInstr      int // per path
	MaxDepth      int
	MaxAlloc      int
	MaxConcretize int
	MaxPaths      int
	TimeoutMS     int
	Solver        string
	SolverLog     string
	Concrete      map[string]uint64 // concrete mode: input name#seq -> value (no solver)
	ConcreteSeq   []uint64          // concrete mode by sequence
	ConcreteMode  bool
	Trace         bool
	MapReverse    bool // iterate maps in reverse insertion order
	StopAtFirst   bool
	KnownTags     []string // path tags of listed known findings: such violations do not count towards the 25-violation stop
	Witnesses     int  // number of end-of-path models to sample for native validation
	Thorough      bool
	Deadline      time.Time
	ForcePrefix   []int // work splitting: the i-th decision only takes alternatives c with c % ForceMod[i] == ForcePrefix[i]
	ForceMod      []int
}

func DefaultOptions() Options {
	return Options{MaxInstr: 3000000, MaxDepth: 400, MaxAlloc: 1 << 22, MaxConcretize: 128, MaxPaths: 2000000, TimeoutMS: 60000, Solver: "z3-new"}
}

// ---- control signals (Go panics used inside the interpreter) ----

type unmodelled struct{ msg string }
type boundExceeded struct{ msg string }
type pathEnd struct{ reason string }
type goPanicSignal struct{ p *goPanic }

// EngineCrash wraps an internal error of the interpreter with the Go stack where it happened.
type EngineCrash struct {
	V     interface{}
	Stack string
	Where string
}

type goPanic struct {
	val   Value
	msg   string
	stack string
}

type InputVal struct {
	Name  string `json:"name"`
	Kind  string `json:"kind"`
	Width int    `json:"width"`
	Val   uint64 `json:"val"`
}

type Violation struct {
	Kind     string     `json:"kind"` // assert | panic
	Msg      string     `json:"msg"`
	Site     string     `json:"site"`
	Stack    string     `json:"stack,omitempty"`
	Inputs   []InputVal `json:"inputs"`
	Path     int        `json:"path"`
	Observed []string   `json:"observed,omitempty"`
	Tags     []string   `json:"tags,omitempty"`
}

type Result struct {
	Harness       string         `json:"harness"`
	Paths         int            `json:"paths"`
	Infeasible    int            `json:"infeasible_paths"`
	Obligations   int            `json:"obligations"`
	Discharged    int            `json:"discharged"`
	Trivial       int            `json:"trivial_asserts"`
	Inconclusive  []string       `json:"inconclusive"`
	Violations    []Violation    `json:"violations"`
	KnownDropped  int            `json:"known_dropped,omitempty"` // further instances of listed known findings (not stored)
	Reach         map[string]int `json:"reach"`
	Assumes       map[string]int `json:"assumes"`
	AssumePruned  int            `json:"assume_pruned_paths"`
	Funcs         map[string]int `json:"funcs"`
	Stubs         map[string]int `json:"stubs"`
	Queries       int            `json:"solver_queries"`
	SolverSec     float64        `json:"solver_sec"`
	WallSec       float64        `json:"wall_sec"`
	Instrs        int64          `json:"instructions"`
	Samples       []string       `json:"samples"`
	SolverErrors  []string       `json:"solver_errors,omitempty"`
	Inputs        int            `json:"max_inputs"`
	Decisions     int            `json:"decisions"`
	InitNotes     []string       `json:"init_notes,omitempty"`
	Truncated     string         `json:"truncated,omitempty"`
	SymbolicOnly  bool           `json:"symbolic_only,omitempty"` // harness declared that it cannot be replayed natively
	BatchedQueries int           `json:"batched_assert_queries"`
	Summaries     int            `json:"summarised_calls"`
	DecisionSites map[string]int `json:"decision_sites,omitempty"`
	Witnesses     [][]InputVal   `json:"witnesses,omitempty"`
	ReachTags     []string       `json:"reach_tags,omitempty"` // tags present in the harness source
	ObservedTrace []string       `json:"observed,omitempty"` // concrete mode
	Outcome       string         `json:"outcome,omitempty"`  // concrete mode: ok | panic:<msg> | assertfail:<msg> | assumefail
}

type decision struct {
	choice  int
	n       int // number of alternatives; 0 = open-ended (concretize: 2)
	payload uint64
	forced  bool
	mod     int    // forced decisions: modulus of the residue class this job explores
	res     int
	pushed  bool   // the chosen alternative is on the solver stack
	feas    []bool // feasibility of each alternative under the path condition at first visit (nil for forced)
	models  []map[string]uint64 // a model per feasible alternative, when known
	events  int    // in.events at the time of the push
}

type inputRec struct {
	name string
	kind string
	t    *sym.Term
}

type frame struct {
	fn        *ssa.Function
	locals    map[ssa.Value]Value
	defers    []*deferred
	caller    *frame
	panicking *goPanic
	isDefer   bool
	result    Value
	site      ssa.Instruction
}

type deferred struct {
	fn   Value
	args []Value
	call *ssa.CallCommon
}

type Interp struct {
	prog  *ssa.Program
	ctx   *sym.Ctx
	sol   *sym.Solver
	opts  Options
	res   *Result
	stubs map[string]stubFn

	byteConst [256]*sym.Term
	emptyStr  *Str

	// persistent (init epoch) state
	globals  map[*ssa.Global]*Cell
	pkgInit  map[*ssa.Package]int // 0 none, 1 running, 2 done
	initMode bool
	funcVals map[*ssa.Function]*Func
	constStr map[*ssa.Const]Value

	// per-path state
	epoch     int32
	undo      []undoRec
	undoMaps  []*MapObj
	decisions []decision
	dpos      int // next decision index during this run
	events    int // solver-relevant events seen in this run
	synced    int // events already on the solver stack
	pc        []*sym.Term
	inputs    []inputRec
	nInstr    int
	depth     int
	nCells    int
	top       *frame
	observed  []string
	tags      []string
	pathUnknown bool
	timeSeq   *sym.Term
	inlineGo  bool // vsym.InlineGoroutines: go statements run to completion at the spawn point
	knownSeen map[string]int
	knownKept int
	frozenClock *sym.Term // set by vsym.FreezeClock: the environment clock stands still (observability-only uses of time)
	seq       int
	concPos   int
	curFrame  *frame
	nextIsDefer bool
	lastWhere string
	blockCount int64
	overrides map[string]*ssa.Function
	ovCache   map[*ssa.Function]*ssa.Function
	pending   []pendingAssert
	envSeq    int
	fsyncCalls int
	merge     *mergeState
	ub, lb    map[int]uint64 // learned unsigned bounds per term id (this path)
	StatRangeHits int
	pool      []map[string]uint64 // recent models (any path); candidates for feasibility witnesses
	poolPos   int
	StatPoolHits int
	model     map[string]uint64 // an assignment satisfying the current path condition (when modelOK)
	modelOK   bool
	auxVars   []*sym.Term
	evalMemo  map[int]uint64
	StatModelHits, StatModelMiss int
	initNotes []string
	patCache  map[*ssa.Function]stubFn
	named     map[string]*Cell
	elemOwner map[*Cell]elemRef
}

func (in *Interp) PartialResult() *Result { return in.res }
func (in *Interp) Where() string          { return in.where() }
func (in *Interp) InitNotes() []string    { return in.initNotes }

func New(prog *ssa.Program, opts Options) (*Interp, error) {
	in := &Interp{prog: prog, ctx: sym.NewCtx(), opts: opts,
		globals: map[*ssa.Global]*Cell{}, pkgInit: map[*ssa.Package]int{}, funcVals: map[*ssa.Function]*Func{}, constStr: map[*ssa.Const]Value{},
		ovCache: map[*ssa.Function]*ssa.Function{},
		patCache: map[*ssa.Function]stubFn{}, named: map[string]*Cell{}, elemOwner: map[*Cell]elemRef{}}
	for i := 0; i < 256; i++ {
		in.byteConst[i] = in.ctx.BVConst(uint64(i), 8)
	}
	in.emptyStr = &Str{}
	in.stubs = buildStubs()
	if !opts.ConcreteMode {
		s, err := sym.NewSolver(in.ctx, opts.Solver, opts.TimeoutMS, opts.SolverLog)
		if err != nil {
			return nil, err
		}
		in.sol = s
	}
	return in, nil
}

func (in *Interp) Close() {
	if in.sol != nil {
		in.sol.Close()
	}
}

// ---- exploration ----

// Run explores all paths of the harness function.
func (in *Interp) Run(fn *ssa.Function) *Result {
	start := time.Now()
	res := &Result{Harness: fn.Name(), Reach: map[string]int{}, Assumes: map[string]int{}, Funcs: map[string]int{}, Stubs: map[string]int{}}
	if in.opts.Trace {
		res.DecisionSites = map[string]int{}
	}
	in.res = res
	in.decisions = nil
	for i, c := range in.opts.ForcePrefix {
		mod := 1 << 30
		if i < len(in.opts.ForceMod) && in.opts.ForceMod[i] > 0 {
			mod = in.opts.ForceMod[i]
		}
		in.decisions = append(in.decisions, decision{choice: c, n: c + 1, forced: true, mod: mod, res: c})
	}
	in.synced = 0
	nForced := len(in.opts.ForcePrefix)
	for {
		if res.Paths >= in.opts.MaxPaths {
			res.Inconclusive = append(res.Inconclusive, "bound-exceeded: MaxPaths")
			break
		}
		if !in.opts.Deadline.IsZero() && time.Now().After(in.opts.Deadline) {
			res.Inconclusive = append(res.Inconclusive, "bound-exceeded: deadline")
			break
		}
		in.runOnePath(fn)
		res.Paths++
		if len(in.decisions) > res.Decisions {
			res.Decisions = len(in.decisions)
		}
		if in.opts.ConcreteMode {
			break
		}
		if in.opts.StopAtFirst && len(res.Violations) > 0 {
			break
		}
		if len(res.Violations)-in.knownKept >= 25 {
			res.Truncated = "stopped after 25 violations"
			break
		}
		// backtrack: find the deepest decision with an untried feasible alternative
		i := len(in.decisions) - 1
		next := -1
		for i >= 0 {
			d := &in.decisions[i]
			for c := d.choice + 1; c < d.n; c++ {
				if d.forced && c%d.mod != d.res {
					continue
				}
				if d.feas == nil || d.feas[c] {
					next = c
					break
				}
			}
			if next >= 0 {
				break
			}
			i--
		}
		if i < 0 {
			break
		}
		// pop solver frames of decisions i..end that are on the stack
		for j := len(in.decisions) - 1; j >= i; j-- {
			if in.decisions[j].pushed {
				in.sol.Pop()
			}
		}
		in.synced = in.decisions[i].events
		in.decisions[i].choice = next
		in.decisions[i].pushed = false
		in.decisions = in.decisions[:i+1]
		// forced decisions below the one that advanced start over in their residue class
		for j := i + 1; j < nForced; j++ {
			c := in.opts.ForcePrefix[j]
			mod := 1 << 30
			if j < len(in.opts.ForceMod) && in.opts.ForceMod[j] > 0 {
				mod = in.opts.ForceMod[j]
			}
			in.decisions = append(in.decisions, decision{choice: c, n: c + 1, forced: true, mod: mod, res: c})
		}
	}
	// unwind solver
	if in.sol != nil {
		for in.sol.Depth() > 0 {
			in.sol.Pop()
		}
		res.Queries = in.sol.Queries
		res.SolverSec = in.sol.Time.Seconds()
		res.SolverErrors = in.sol.Errors
		if len(in.sol.Errors) > 0 {
			res.Inconclusive = append(res.Inconclusive, fmt.Sprintf("solver-error: %d error lines, first: %s", len(in.sol.Errors), in.sol.Errors[0]))
		}
	}
	res.WallSec = time.Since(start).Seconds()
	return res
}

func (in *Interp) resetPath() {
	// undo writes to init-epoch state
	for i := len(in.undo) - 1; i >= 0; i-- {
		in.undo[i].c.v = in.undo[i].v
		in.undo[i].c.taint = in.undo[i].t
	}
	in.undo = in.undo[:0]
	for _, m := range in.undoMaps {
		s := m.saved
		m.keys, m.vals, m.dead, m.idx, m.nsym, m.n = s.keys, s.vals, s.dead, s.idx, s.nsym, s.n
		m.saved = nil
	}
	in.undoMaps = in.undoMaps[:0]
	in.epoch++
	in.dpos = 0
	in.events = 0
	in.pc = in.pc[:0]
	in.inputs = in.inputs[:0]
	in.nInstr = 0
	in.depth = 0
	in.observed = nil
	in.tags = nil
	in.pathUnknown = false
	in.timeSeq = nil
	in.inlineGo = false
	in.frozenClock = nil
	in.seq = 0
	in.concPos = 0
	in.curFrame = nil
	in.lastWhere = ""
	in.modelOK = false
	in.model = nil
	in.auxVars = in.auxVars[:0]
	in.pending = nil
	in.ub, in.lb = nil, nil
	in.envSeq = 0
	in.fsyncCalls = 0
}

// evalModel evaluates a term under the cached model; ok=false if it cannot (no model, uninterpreted function).
func (in *Interp) evalModel(t *sym.Term) (v uint64, ok bool) {
	if !in.modelOK {
		return 0, false
	}
	ok = true
	memo := map[int]uint64{}
	func() {
		defer func() {
			if r := recover(); r != nil {
				ok = false
			}
		}()
		v = in.ctx.Eval(t, in.model, func(name string, args []uint64) uint64 { panic("uf") }, memo)
	}()
	return v, ok
}

// addPool remembers a model for later witness searches.
func (in *Interp) addPool(m map[string]uint64) {
	if m == nil {
		return
	}
	if len(in.pool) < 24 {
		in.pool = append(in.pool, m)
		return
	}
	in.pool[in.poolPos%24] = m
	in.poolPos++
}

// evalUnder evaluates t under model m; ok=false on uninterpreted functions.
func (in *Interp) evalUnder(t *sym.Term, m map[string]uint64, memo map[int]uint64) (v uint64, ok bool) {
	ok = true
	func() {
		defer func() {
			if r := recover(); r != nil {
				ok = false
			}
		}()
		v = in.ctx.Eval(t, m, func(name string, args []uint64) uint64 { panic("uf") }, memo)
	}()
	return v, ok
}

// poolWitness looks for a remembered model that satisfies the whole path condition and cond.
func (in *Interp) poolWitness(cond *sym.Term) map[string]uint64 {
	for i := len(in.pool) - 1; i >= 0; i-- {
		m := in.pool[i]
		memo := map[int]uint64{}
		if v, ok := in.evalUnder(cond, m, memo); !ok || v != 1 {
			continue
		}
		good := true
		for j := len(in.pc) - 1; j >= 0; j-- {
			if v, ok := in.evalUnder(in.pc[j], m, memo); !ok || v != 1 {
				good = false
				break
			}
		}
		if good {
			return m
		}
	}
	return nil
}

// fetchModel reads a model of the current solver stack (after a sat answer).
var noModelCache = os.Getenv("GOSYM_NOMODEL") != ""

func (in *Interp) fetchModel() map[string]uint64 {
	if noModelCache {
		return nil
	}
	var ts []*sym.Term
	for _, ir := range in.inputs {
		if !ir.t.IsConst() {
			ts = append(ts, ir.t)
		}
	}
	ts = append(ts, in.auxVars...)
	vals, err := in.sol.Values(ts)
	if err != nil {
		return nil
	}
	m := make(map[string]uint64, len(ts))
	for _, t := range ts {
		m[t.Name] = vals[t.ID]
	}
	in.addPool(m)
	return m
}

// ensureModel makes sure a model of the current path condition is cached; false if none can be had.
func (in *Interp) ensureModel() bool {
	if in.modelOK {
		return true
	}
	if in.events != in.synced {
		return false
	}
	switch in.sol.Check() {
	case sym.Sat:
		if m := in.fetchModel(); m != nil {
			in.model, in.modelOK = m, true
			return true
		}
	case sym.Unsat:
		panic(pathEnd{"infeasible"})
	}
	return false
}

func (in *Interp) runOnePath(fn *ssa.Function) {
	in.resetPath()
	res := in.res
	defer func() {
		r := recover()
		if r == nil {
			return
		}
		switch e := r.(type) {
		case pathEnd:
			switch e.reason {
			case "infeasible":
				res.Infeasible++
			case "assume":
				res.AssumePruned++
			}
		case unmodelled:
			res.Inconclusive = append(res.Inconclusive, "unmodelled: "+e.msg+" at "+in.lastWhere)
			if in.opts.ConcreteMode {
				res.Outcome = "unmodelled:" + e.msg
			}
		case boundExceeded:
			res.Inconclusive = append(res.Inconclusive, "bound-exceeded: "+e.msg+" at "+in.lastWhere)
		default:
			panic(r)
		}
	}()
	ret, pan := in.callFunction(fn, nil, nil, nil)
	_ = ret
	if pan == nil && !in.opts.ConcreteMode {
		in.flushAsserts()
	}
	if pan != nil {
		in.reportViolation("panic", pan.msg, pan.stack)
		if in.opts.ConcreteMode {
			res.Outcome = "panic:" + pan.msg
		}
		return
	}
	if in.opts.ConcreteMode && res.Outcome == "" {
		res.Outcome = "ok"
	}
}

func (in *Interp) where() string {
	fr := in.curFrame
	var parts []string
	for n := 0; fr != nil && n < 6; n++ {
		s := fr.fn.String()
		if fr.site != nil {
			s += "@" + in.posOf(fr.site)
		}
		parts = append(parts, s)
		fr = fr.caller
	}
	return strings.Join(parts, " <- ")
}

func (in *Interp) posOf(i ssa.Instruction) string {
	if i == nil {
		return "?"
	}
	p := i.Pos()
	if p == token.NoPos {
		// search backwards in the block for a position
		b := i.Block()
		if b != nil {
			for _, x := range b.Instrs {
				if x.Pos() != token.NoPos {
					p = x.Pos()
				}
				if x == i {
					break
				}
			}
		}
	}
	if p == token.NoPos {
		return "?"
	}
	ps := in.prog.Fset.Position(p)
	f := ps.Filename
	if k := strings.LastIndex(f, "/"); k >= 0 {
		if k2 := strings.LastIndex(f[:k], "/"); k2 >= 0 {
			f = f[k2+1:]
		}
	}
	return fmt.Sprintf("%s:%d", f, ps.Line)
}

func (in *Interp) stackString() string {
	fr := in.curFrame
	var parts []string
	for n := 0; fr != nil && n < 12; n++ {
		s := fr.fn.String()
		if fr.site != nil {
			s += "@" + in.posOf(fr.site)
		}
		parts = append(parts, s)
		fr = fr.caller
	}
	return strings.Join(parts, " <- ")
}

// addEvent registers a constraint on the current path (assume / post-assert fact).
func (in *Interp) addConstraint(t *sym.Term) {
	in.pc = append(in.pc, t)
	in.learn(t)
	if in.sol == nil {
		return
	}
	if in.modelOK {
		if v, ok := in.evalModel(t); !ok || v != 1 {
			in.modelOK = false
		}
	}
	if in.events >= in.synced {
		in.sol.Assert(t)
		in.synced++
	}
	in.events++
}

// decide picks one of the alternatives (boolean terms, mutually exclusive and
// jointly exhaustive under the path condition); nil alts = unconditional k-way choice.
func (in *Interp) decide(k int, alts []*sym.Term) int { return in.decideX(k, alts, false) }

func (in *Interp) decideX(k int, alts []*sym.Term, noCheck bool) int {
	in.flushAsserts()
	if in.opts.ConcreteMode {
		panic("decide in concrete mode")
	}
	if in.dpos < len(in.decisions) {
		d := &in.decisions[in.dpos]
		in.dpos++
		if d.forced {
			if d.choice >= k {
				d.n = k
				panic(pathEnd{"infeasible"})
			}
			d.n = k // the real arity: further alternatives of this residue class are explored by backtracking
		}
		if !d.pushed {
			// a forced prefix decision, or the alternative chosen by the last backtrack: put it on the solver stack
			if in.events != in.synced {
				panic(fmt.Sprintf("decide: solver stack out of sync at re-push (events %d synced %d)", in.events, in.synced))
			}
			d.pushed = true
			d.events = in.events
			in.sol.Push()
			if alts != nil {
				in.sol.Assert(alts[d.choice])
			}
			in.synced = in.events + 1
		}
		in.events++
		if alts != nil {
			in.pc = append(in.pc, alts[d.choice])
			in.learn(alts[d.choice])
		}
		if in.dpos == len(in.decisions) {
			// last replayed decision: the frontier starts here; restore the model recorded for this alternative
			in.modelOK = false
			if d.models != nil && d.models[d.choice] != nil {
				in.model, in.modelOK = d.models[d.choice], true
			}
		}
		return d.choice
	}
	// frontier: decide the feasibility of every alternative now, so that no re-execution is spent on dead ones
	if in.events != in.synced {
		panic(fmt.Sprintf("decide: solver stack out of sync (events %d synced %d)", in.events, in.synced))
	}
	if in.res.DecisionSites != nil {
		w := "?"
		if in.curFrame != nil {
			w = in.curFrame.fn.Name() + "@" + in.posOf(in.curFrame.site)
		}
		in.res.DecisionSites[w]++
	}
	feas := make([]bool, k)
	models := make([]map[string]uint64, k)
	first := -1
	nfeas := 0
	known := -1 // alternative satisfied by the cached model
	if alts != nil && !noCheck && in.ensureModel() {
		for c := 0; c < k; c++ {
			if v, ok := in.evalModel(alts[c]); ok && v == 1 {
				known = c
				break
			}
		}
	}
	if known >= 0 {
		in.StatModelHits++
	} else if alts != nil && !noCheck {
		in.StatModelMiss++
	}
	for c := 0; c < k; c++ {
		feas[c] = true
		if c == known {
			models[c] = in.model
		} else if alts != nil && !noCheck {
			if c == k-1 && nfeas == 0 && known < 0 {
				// all others are infeasible: this one must hold (the path condition is satisfiable)
			} else if w := in.poolWitness(alts[c]); w != nil {
				models[c] = w
				in.StatPoolHits++
			} else {
				in.sol.Push()
				in.sol.Assert(alts[c])
				switch in.sol.Check() {
				case sym.Unsat:
					feas[c] = false
				case sym.Unknown:
					in.pathUnknown = true
				case sym.Sat:
					models[c] = in.fetchModel()
				}
				in.sol.Pop()
			}
		}
		if feas[c] {
			nfeas++
			if first < 0 {
				first = c
			}
		}
	}
	if first >= 0 {
		in.sol.Push()
		if alts != nil {
			in.sol.Assert(alts[first])
		}
		in.decisions = append(in.decisions, decision{choice: first, n: k, feas: feas, models: models, events: in.events, pushed: true})
		in.dpos++
		in.events++
		in.synced = in.events
		if alts != nil {
			in.pc = append(in.pc, alts[first])
			in.learn(alts[first])
		}
		if alts != nil {
			if models[first] != nil {
				in.model, in.modelOK = models[first], true
			} else if in.modelOK {
				if v, ok := in.evalModel(alts[first]); !ok || v != 1 {
					in.modelOK = false
				}
			}
		}
		return first
	}
	// no feasible alternative: this path is dead
	panic(pathEnd{"infeasible"})
}

// branch forks on a symbolic condition.
func (in *Interp) branch(c *sym.Term) bool {
	if c.IsConst() {
		return c.C == 1
	}
	if v, ok := in.decideByRange(c); ok {
		// implied by bounds already on the path condition: no fork, no query, no new constraint
		in.StatRangeHits++
		return v
	}
	if ms := in.merge; ms != nil {
		// summarising a pure scalar callee: follow / extend the local decision vector, no solver
		var take bool
		if ms.pos < len(ms.prefix) {
			take = ms.prefix[ms.pos]
		} else {
			take = true
			ms.prefix = append(ms.prefix, true)
			if len(ms.prefix) > 24 {
				panic(mergeAbort{})
			}
		}
		ms.pos++
		if take {
			ms.conds = append(ms.conds, c)
		} else {
			ms.conds = append(ms.conds, in.ctx.Not(c))
		}
		return take
	}
	if in.opts.ConcreteMode {
		panic("symbolic branch in concrete mode: " + c.String())
	}
	return in.decide(2, []*sym.Term{c, in.ctx.Not(c)}) == 0
}

// concretize enumerates the feasible values of a term (forking).
func (in *Interp) concretize(t *sym.Term, why string) uint64 {
	if t.IsConst() {
		return t.C
	}
	in.flushAsserts()
	for n := 0; ; n++ {
		if n >= in.opts.MaxConcretize {
			panic(boundExceeded{"concretize cap reached for " + why})
		}
		var v uint64
		if in.dpos < len(in.decisions) {
			v = in.decisions[in.dpos].payload
		} else if mv, ok := in.evalModelIfReady(t); ok {
			v = mv
		} else {
			// frontier: ask the solver for a value
			r := in.sol.Check()
			if r != sym.Sat {
				if r == sym.Unsat {
					panic(pathEnd{"infeasible"})
				}
				panic(boundExceeded{"solver unknown while concretizing " + why})
			}
			vals, err := in.sol.Values([]*sym.Term{t})
			if err != nil {
				panic(boundExceeded{"get-value failed while concretizing " + why + ": " + err.Error()})
			}
			v = vals[t.ID]
		}
		eq := in.ctx.Eq(t, in.constLike(t, v))
		ch := in.decide(2, []*sym.Term{eq, in.ctx.Not(eq)})
		in.decisions[in.dpos-1].payload = v
		if ch == 0 {
			return v
		}
	}
}

func (in *Interp) evalModelIfReady(t *sym.Term) (uint64, bool) {
	if !in.ensureModel() {
		return 0, false
	}
	return in.evalModel(t)
}

func (in *Interp) constLike(t *sym.Term, v uint64) *sym.Term {
	switch t.S.K {
	case sym.KBool:
		return in.ctx.BoolConst(v != 0)
	case sym.KBV:
		return in.ctx.BVConst(v, t.S.W)
	}
	return in.ctx.FFromBits(in.ctx.BVConst(v, 64))
}

func (in *Interp) site() string {
	fr := in.curFrame
	// skip vsym frames
	for fr != nil && fr.fn.Pkg != nil && fr.fn.Pkg.Pkg.Path() == "vsym" {
		fr = fr.caller
	}
	if fr == nil {
		return "?"
	}
	return fr.fn.Name() + "@" + in.posOf(fr.site)
}

func (in *Interp) modelInputs() []InputVal {
	var out []InputVal
	if in.sol == nil {
		for _, ir := range in.inputs {
			out = append(out, InputVal{Name: ir.name, Kind: ir.kind, Width: ir.t.S.W, Val: ir.t.C})
		}
		return out
	}
	var ts []*sym.Term
	for _, ir := range in.inputs {
		if !ir.t.IsConst() {
			ts = append(ts, ir.t)
		}
	}
	vals, err := in.sol.Values(ts)
	if err != nil {
		in.res.Inconclusive = append(in.res.Inconclusive, "model extraction failed: "+err.Error())
		return nil
	}
	for _, ir := range in.inputs {
		v := ir.t.C
		if !ir.t.IsConst() {
			v = vals[ir.t.ID]
		}
		out = append(out, InputVal{Name: ir.name, Kind: ir.kind, Width: ir.t.S.W, Val: v})
	}
	return out
}

func (in *Interp) reportViolation(kind, msg, stack string) {
	if !in.opts.ConcreteMode {
		in.flushAsserts()
	}
	v := Violation{Kind: kind, Msg: msg, Site: in.site(), Stack: stack, Path: in.res.Paths, Observed: in.observed, Tags: in.tags}
	if in.sol != nil {
		r := in.sol.Check()
		if r == sym.Unsat {
			// path became infeasible (can happen after unknown branches)
			in.res.Infeasible++
			return
		}
		if r == sym.Unknown {
			in.res.Inconclusive = append(in.res.Inconclusive, "unknown: cannot produce model for "+kind+" "+msg+" at "+v.Site)
			return
		}
		v.Inputs = in.modelInputs()
	} else {
		v.Inputs = in.modelInputs()
	}
	for _, kt := range in.opts.KnownTags {
		for _, t := range v.Tags {
			if t == kt {
				// an instance of a listed finding: keep a few per (tag, message, site), keep exploring
				if in.knownSeen == nil {
					in.knownSeen = map[string]int{}
				}
				k := kt + "|" + v.Msg + "|" + v.Site
				in.knownSeen[k]++
				if in.knownSeen[k] > 3 {
					in.res.KnownDropped++
					return
				}
				in.knownKept++
			}
		}
	}
	in.res.Violations = append(in.res.Violations, v)
}

// assertProp handles vsym.Assert.
func (in *Interp) assertProp(c *sym.Term, msg string) {
	res := in.res
	if c.IsConst() {
		if c.C == 1 {
			res.Trivial++
			return
		}
		if in.opts.ConcreteMode {
			res.Outcome = "assertfail:" + msg
			in.reportViolation("assert", msg, in.stackString())
			panic(pathEnd{"violation"})
		}
		in.flushAsserts()
		res.Obligations++
		in.reportViolation("assert", msg, in.stackString())
		panic(pathEnd{"violation"})
	}
	// batched: consecutive assertions with no solver-visible event in between are decided by one query
	in.pending = append(in.pending, pendingAssert{c: c, msg: msg, site: in.site(), stack: in.stackString()})
}

type pendingAssert struct {
	c     *sym.Term
	msg   string
	site  string
	stack string
}

// flushAsserts decides the pending assertions. Must be called before anything else touches the solver.
func (in *Interp) flushAsserts() {
	if len(in.pending) == 0 {
		return
	}
	pend := in.pending
	in.pending = nil
	res := in.res
	if in.events < in.synced {
		// replayed prefix: these obligations were decided on an earlier path
		for _, p := range pend {
			in.addConstraint(p.c)
		}
		return
	}
	for _, p := range pend {
		res.Obligations++
		if len(res.Samples) < 12 {
			s := fmt.Sprintf("%s: assert %q: PC(%d conj) => %s", p.site, p.msg, len(in.pc), p.c.String())
			if len(s) > 600 {
				s = s[:600] + "…"
			}
			res.Samples = append(res.Samples, s)
		}
	}
	if len(pend) > 1 {
		cs := make([]*sym.Term, len(pend))
		for i, p := range pend {
			cs[i] = p.c
		}
		all := in.ctx.And(cs...)
		if in.sol.CheckWith(in.ctx.Not(all)) == sym.Unsat {
			res.Discharged += len(pend)
			res.BatchedQueries++
			for _, p := range pend {
				in.addConstraint(p.c)
			}
			return
		}
	}
	// one by one (also the fallback when the conjunction is not valid)
	for _, p := range pend {
		in.sol.Push()
		in.sol.Assert(in.ctx.Not(p.c))
		r := in.sol.Check()
		switch r {
		case sym.Unsat:
			in.sol.Pop()
			res.Discharged++
			in.addConstraint(p.c)
		case sym.Sat:
			v := Violation{Kind: "assert", Msg: p.msg, Site: p.site, Stack: p.stack, Path: res.Paths, Observed: in.observed, Tags: in.tags}
			v.Inputs = in.modelInputs()
			in.sol.Pop()
			res.Violations = append(res.Violations, v)
			panic(pathEnd{"violation"})
		default:
			in.sol.Pop()
			res.Inconclusive = append(res.Inconclusive, "unknown: assertion "+p.msg+" at "+p.site)
			in.addConstraint(p.c)
		}
	}
}

func (in *Interp) assume(c *sym.Term) {
	in.flushAsserts()
	if c.IsConst() {
		if c.C == 0 {
			if in.opts.ConcreteMode {
				in.res.Outcome = "assumefail"
			}
			panic(pathEnd{"assume"})
		}
		return
	}
	in.res.Assumes[in.site()]++
	if in.events >= in.synced {
		// new on the solver: check satisfiable (the cached model may already show it)
		in.addConstraint(c)
		if in.modelOK {
			return
		}
		switch in.sol.Check() {
		case sym.Unsat:
			panic(pathEnd{"assume"})
		case sym.Sat:
			if m := in.fetchModel(); m != nil {
				in.model, in.modelOK = m, true
			}
		}
		return
	}
	in.addConstraint(c)
}

// fresh creates a new symbolic input.
func (in *Interp) fresh(name, kind string, s sym.Sort) *sym.Term {
	full := fmt.Sprintf("%s#%d", name, in.seq)
	in.seq++
	if in.opts.ConcreteMode {
		var v uint64
		if in.concPos < len(in.opts.ConcreteSeq) {
			v = in.opts.ConcreteSeq[in.concPos]
		}
		in.concPos++
		var t *sym.Term
		switch s.K {
		case sym.KBool:
			t = in.ctx.BoolConst(v&1 == 1)
		case sym.KBV:
			t = in.ctx.BVConst(v, s.W)
		default:
			t = in.ctx.FFromBits(in.ctx.BVConst(v, 64))
		}
		in.inputs = append(in.inputs, inputRec{full, kind, t})
		return t
	}
	var t *sym.Term
	if s.K == sym.KFP {
		bv := in.ctx.Var(full, sym.BV(64))
		in.inputs = append(in.inputs, inputRec{full, kind, bv})
		return in.ctx.FFromBits(bv)
	}
	t = in.ctx.Var(full, s)
	in.inputs = append(in.inputs, inputRec{full, kind, t})
	if len(in.inputs) > in.res.Inputs {
		in.res.Inputs = len(in.inputs)
	}
	return t
}

type mergeState struct {
	prefix []bool
	pos    int
	conds  []*sym.Term
}

type mergeAbort struct{}

var summarizeRe = regexp.MustCompile(`(^|\.)(sov|soz)[A-Z]\w*$|ZanRedisDB/raft\.(min|max|voteRespMsgType|IsLocalMsg|IsResponseMsg|isHardStateEqual|IsEmptyHardState|MustSync)$`)

// summarizableArg: a scalar term, or a struct value (passed by value, so the callee cannot change the caller's
// copy) whose fields are such values; other field kinds (slices, pointers) are allowed inside a struct - a
// whitelisted pure function only reads scalars.
func summarizableArg(v Value) bool {
	switch x := v.(type) {
	case *sym.Term:
		return true
	case *Agg:
		return x != nil
	}
	return false
}

// summarize runs a pure scalar function on all of its local paths and merges the results into one ite term.
// ok=false means the function could not be summarised (panic inside, too many paths, non-scalar result).
func (in *Interp) summarize(fn *ssa.Function, args []Value) (res Value, ok bool) {
	if in.merge != nil || in.opts.ConcreteMode || in.initMode {
		return nil, false
	}
	for _, a := range args {
		if !summarizableArg(a) {
			return nil, false
		}
	}
	type outcome struct {
		cond *sym.Term
		val  *sym.Term
	}
	var outs []outcome
	var prefix []bool
	saveFrame, saveDepth := in.curFrame, in.depth
	defer func() {
		in.merge = nil
		in.curFrame, in.depth = saveFrame, saveDepth
		if r := recover(); r != nil {
			if _, isAbort := r.(mergeAbort); isAbort {
				res, ok = nil, false
				return
			}
			panic(r)
		}
	}()
	for n := 0; ; n++ {
		if n > 128 {
			panic(mergeAbort{})
		}
		ms := &mergeState{prefix: prefix}
		in.merge = ms
		v, pan := in.callFunctionBody(fn, args, nil)
		if pan != nil {
			panic(mergeAbort{})
		}
		t, isT := v.(*sym.Term)
		if !isT {
			panic(mergeAbort{})
		}
		outs = append(outs, outcome{in.ctx.And(ms.conds...), t})
		// next local path: flip the last 'true' decision
		prefix = ms.prefix[:ms.pos]
		i := len(prefix) - 1
		for i >= 0 && !prefix[i] {
			i--
		}
		if i < 0 {
			break
		}
		prefix = append(append([]bool(nil), prefix[:i]...), false)
	}
	in.merge = nil
	r := outs[len(outs)-1].val
	for i := len(outs) - 2; i >= 0; i-- {
		r = in.ctx.Ite(outs[i].cond, outs[i].val, r)
	}
	in.res.Summaries++
	return r, true
}

// overrideFor finds a harness-supplied Go model for a library function: a function named
// VerifModel_<pkg>_<Type>_<Method> (or VerifModel_<pkg>_<Func>) in any loaded package replaces
// <pkg>.<Type>.<Method>; it receives the receiver as its first parameter and is symbolically
// executed like any other code.
func (in *Interp) overrideFor(fn *ssa.Function) *ssa.Function {
	if in.overrides == nil {
		in.overrides = map[string]*ssa.Function{}
		for _, p := range in.prog.AllPackages() {
			for name, m := range p.Members {
				if f, ok := m.(*ssa.Function); ok && strings.HasPrefix(name, "VerifModel_") {
					in.overrides[strings.TrimPrefix(name, "VerifModel_")] = f
				}
			}
		}
	}
	if len(in.overrides) == 0 {
		return nil
	}
	if ov, ok := in.ovCache[fn]; ok {
		return ov
	}
	var key string
	path := fnPkgPath(fn)
	last := path
	if i := strings.LastIndex(path, "/"); i >= 0 {
		last = path[i+1:]
	}
	if rn := recvName(fn); rn != "" {
		tn := rn[strings.LastIndex(rn, ".")+1:]
		key = last + "_" + tn + "_" + fn.Name()
	} else if fn.Signature.Recv() == nil && fn.Pkg != nil {
		key = last + "_" + fn.Name()
	}
	ov := in.overrides[key]
	if ov == fn {
		ov = nil
	}
	in.ovCache[fn] = ov
	return ov
}

// freshEnv creates a symbolic value produced by the environment (clock, randomness). It is not a harness
// input: it is not part of the replay sequence (natively the real environment answers).
func (in *Interp) freshEnv(name string, s sym.Sort) *sym.Term {
	in.envSeq++
	if in.opts.ConcreteMode || in.initMode {
		if s.K == sym.KBool {
			return in.ctx.False
		}
		return in.ctx.BVConst(0, s.W)
	}
	t := in.ctx.Var(fmt.Sprintf("env.%s!%d", name, in.envSeq), s)
	in.auxVars = append(in.auxVars, t)
	return t
}

// ---- function calls ----

func (in *Interp) funcVal(fn *ssa.Function) *Func {
	if f, ok := in.funcVals[fn]; ok {
		return f
	}
	f := &Func{fn: fn}
	in.funcVals[fn] = f
	return f
}

func (in *Interp) runtimePanic(msg string) *goPanic {
	return &goPanic{val: Iface{t: types.Typ[types.String], v: in.mkStr(msg)}, msg: msg, stack: in.stackString()}
}

func (in *Interp) throw(msg string) {
	panic(goPanicSignal{in.runtimePanic(msg)})
}

// callFunction runs an SSA function to completion. A Go panic that escapes it is returned.
func (in *Interp) callFunction(fn *ssa.Function, args []Value, env []Value, site ssa.Instruction) (ret Value, pan *goPanic) {
	if fn.Synthetic == "package initializer" && in.curFrame != nil {
		return nil, nil // imported packages initialise lazily
	}
	if ov := in.overrideFor(fn); ov != nil {
		in.res.Stubs["model:"+fn.String()]++
		return in.callFunction(ov, args, nil, site)
	}
	name := fn.String()
	if st, ok := in.stubs[name]; ok {
		in.res.Stubs[name]++
		return in.callStub(st, fn, args)
	}
	if fn.Blocks == nil {
		if st := in.patternStub(fn); st != nil {
			in.res.Stubs[name]++
			return in.callStub(st, fn, args)
		}
		panic(unmodelled{"call to function without body: " + name})
	}
	if st := in.patternStub(fn); st != nil {
		in.res.Stubs[name]++
		return in.callStub(st, fn, args)
	}
	if in.merge == nil && len(args) > 0 && summarizeRe.MatchString(name) {
		if v, ok := in.summarize(fn, args); ok {
			return v, nil
		}
	}
	return in.callFunctionBody(fn, args, env)
}

// callFunctionBody interprets the SSA body of fn.
func (in *Interp) callFunctionBody(fn *ssa.Function, args []Value, env []Value) (ret Value, pan *goPanic) {
	in.depth++
	if in.depth > in.opts.MaxDepth {
		panic(boundExceeded{"call depth"})
	}
	fr := &frame{fn: fn, locals: make(map[ssa.Value]Value, 16), caller: in.curFrame, isDefer: in.nextIsDefer}
	in.nextIsDefer = false
	for i, p := range fn.Params {
		fr.locals[p] = args[i]
	}
	for i, fv := range fn.FreeVars {
		fr.locals[fv] = env[i]
	}
	saved := in.curFrame
	in.curFrame = fr
	defer func() {
		in.curFrame = saved
		in.depth--
	}()
	pan = in.runFrom(fr, fn.Blocks[0])
	if pan != nil {
		fr.panicking = pan
		if p2 := in.runDefersSafe(fr); p2 != nil {
			fr.panicking = p2
		}
		if fr.panicking != nil {
			return nil, fr.panicking
		}
		// recovered
		if fn.Recover != nil {
			if p3 := in.runFrom(fr, fn.Recover); p3 != nil {
				return nil, p3
			}
			return fr.result, nil
		}
		return in.zeroResults(fn), nil
	}
	return fr.result, nil
}

func (in *Interp) zeroResults(fn *ssa.Function) Value {
	r := fn.Signature.Results()
	switch r.Len() {
	case 0:
		return nil
	case 1:
		return in.zero(r.At(0).Type())
	}
	return in.zero(r)
}

// runDefersSafe runs the deferred calls of fr (LIFO); returns a new panic raised by a deferred call.
func (in *Interp) runDefersSafe(fr *frame) (pan *goPanic) {
	for len(fr.defers) > 0 {
		d := fr.defers[len(fr.defers)-1]
		fr.defers = fr.defers[:len(fr.defers)-1]
		_, p := in.callValue(d.fn, d.args, d.call, nil, true)
		if p != nil {
			// a panic in a deferred call replaces the current one
			fr.panicking = p
		}
	}
	return nil
}

// runFrom executes blocks starting at b until Return. Go panics are caught and returned.
func (in *Interp) runFrom(fr *frame, b *ssa.BasicBlock) (pan *goPanic) {
	defer func() {
		if r := recover(); r != nil {
			if g, ok := r.(goPanicSignal); ok {
				pan = g.p
				in.curFrame = fr
				return
			}
			switch r.(type) {
			case unmodelled, boundExceeded:
				if in.lastWhere == "" {
					in.curFrame = fr
					in.lastWhere = in.where()
				}
				panic(r)
			case pathEnd, EngineCrash:
				panic(r)
			}
			panic(EngineCrash{V: r, Stack: string(debug.Stack()), Where: in.where()})
		}
	}()
	var prev *ssa.BasicBlock
	for {
		next, done := in.runBlock(fr, b, prev)
		if done {
			return nil
		}
		prev, b = b, next
	}
}

func (in *Interp) get(fr *frame, v ssa.Value) Value {
	switch x := v.(type) {
	case *ssa.Const:
		return in.constVal(x)
	case *ssa.Global:
		return Ptr{in.globalCell(x)}
	case *ssa.Function:
		return in.funcVal(x)
	case *ssa.Builtin:
		return &Func{name: x.Name()}
	}
	r, ok := fr.locals[v]
	if !ok {
		panic(fmt.Sprintf("get: no value for %s (%T) in %s", v.Name(), v, fr.fn))
	}
	return r
}

func (in *Interp) constVal(c *ssa.Const) Value {
	if c.Value == nil {
		return in.zero(c.Type())
	}
	t := under(c.Type())
	if b, ok := t.(*types.Basic); ok {
		if w, signed, ok := intInfo(b); ok {
			if signed {
				v, _ := constant.Int64Val(constant.ToInt(c.Value))
				return in.ctx.BVConst(uint64(v), w)
			}
			v, _ := constant.Uint64Val(constant.ToInt(c.Value))
			return in.ctx.BVConst(v, w)
		}
		switch b.Kind() {
		case types.Bool, types.UntypedBool:
			return in.ctx.BoolConst(constant.BoolVal(c.Value))
		case types.Float64, types.Float32, types.UntypedFloat:
			f, _ := constant.Float64Val(c.Value)
			return in.ctx.FPConst(f)
		case types.String, types.UntypedString:
			if v, ok := in.constStr[c]; ok {
				return v
			}
			v := in.mkStr(constant.StringVal(c.Value))
			in.constStr[c] = v
			return v
		}
	}
	if _, ok := t.(*types.TypeParam); ok {
		panic(unmodelled{"constant of type parameter type"})
	}
	panic(unmodelled{"constant of type " + c.Type().String()})
}

func (in *Interp) globalCell(g *ssa.Global) *Cell {
	if c, ok := in.globals[g]; ok {
		return c
	}
	save := in.epoch
	in.epoch = 0
	c := in.allocType(g.Type().(*types.Pointer).Elem())
	in.epoch = save
	in.globals[g] = c
	if g.Pkg != nil && g.Pkg.Pkg.Path() == "os" && (g.Name() == "Stdout" || g.Name() == "Stderr" || g.Name() == "Stdin") {
		// opaque standard streams: a distinct *os.File each, never written through in modelled code
		save := in.epoch
		in.epoch = 0
		c.v = Ptr{in.allocType(g.Type().(*types.Pointer).Elem().(*types.Pointer).Elem())}
		in.epoch = save
		return c
	}
	if g.Pkg != nil {
		in.ensureInit(g.Pkg)
		switch in.pkgInit[g.Pkg] {
		case 1: // own init running: zero value readable for now
			setTaint(c, 0, 2)
		case 3: // skipped or aborted: zero value is not trustworthy until stored
			setTaint(c, 0, 1)
		}
	}
	return c
}

var initSkip = []string{"runtime", "internal/", "syscall", "os", "reflect", "sync", "unsafe", "time", "net", "crypto", "plugin",
	"google.golang.org/", "golang.org/x/net/http2", "golang.org/x/net/trace", "golang.org/x/net/internal", "golang.org/x/net/idna", "golang.org/x/sys", "github.com/prometheus/", "go.uber.org/", "github.com/coreos/etcd",
	"github.com/cockroachdb/", "github.com/dgraph-io/", "github.com/shirou/", "testing", "flag", "log", "encoding/json", "html", "text/template",
	"mime", "compress", "archive", "database", "debug", "go/", "image", "expvar", "regexp", "github.com/golang/protobuf", "github.com/gogo/protobuf",
	"github.com/absolute8511/glog", "github.com/coreos/pkg", "vsym", "fmt", "math/rand", "math/big", "os/", "path", "unicode"}

func initSkipped(path string) bool {
	if path == "unicode/utf8" || path == "internal/bytealg" || path == "internal/itoa" || path == "internal/byteorder" {
		return false
	}
	for _, p := range initSkip {
		if path == p || strings.HasPrefix(path, p+"/") || (strings.HasSuffix(p, "/") && strings.HasPrefix(path, p)) {
			return true
		}
	}
	return false
}

// ensureInit runs the package initialiser once, concretely. pkgInit: 1 running, 2 done, 3 skipped/aborted.
// The initialisers of imported packages are not called from here (they run lazily, when one of
// their own globals is touched).
func (in *Interp) ensureInit(p *ssa.Package) {
	if p == nil || in.pkgInit[p] != 0 {
		return
	}
	initFn := p.Func("init")
	if initFn == nil || initFn.Blocks == nil {
		in.pkgInit[p] = 2
		return
	}
	if initSkipped(p.Pkg.Path()) {
		in.pkgInit[p] = 3
		in.initNotes = append(in.initNotes, p.Pkg.Path()+": init skipped (globals tainted)")
		return
	}
	in.pkgInit[p] = 1
	saveMode, saveEpoch, saveFrame, saveDepth, saveInstr, saveDefer := in.initMode, in.epoch, in.curFrame, in.depth, in.nInstr, in.nextIsDefer
	in.initMode = true
	in.epoch = 0
	in.curFrame = nil
	in.depth = 0
	in.nInstr = 0
	in.nextIsDefer = false
	ok := true
	func() {
		defer func() {
			if r := recover(); r != nil {
				ok = false
				switch e := r.(type) {
				case unmodelled:
					in.initNotes = append(in.initNotes, p.Pkg.Path()+": init aborted: "+e.msg+" at "+in.lastWhere)
					in.lastWhere = ""
				case boundExceeded:
					in.initNotes = append(in.initNotes, p.Pkg.Path()+": init aborted: "+e.msg)
				case pathEnd:
					in.initNotes = append(in.initNotes, p.Pkg.Path()+": init aborted: "+e.reason)
				default:
					panic(r)
				}
			}
		}()
		_, pan := in.callFunction(initFn, nil, nil, nil)
		if pan != nil {
			ok = false
			in.initNotes = append(in.initNotes, p.Pkg.Path()+": init panicked: "+pan.msg)
		}
	}()
	in.initMode, in.epoch, in.curFrame, in.depth, in.nInstr, in.nextIsDefer = saveMode, saveEpoch, saveFrame, saveDepth, saveInstr, saveDefer
	if ok {
		in.pkgInit[p] = 2
		for g, c := range in.globals {
			if g.Pkg == p {
				setTaint(c, 2, 0)
			}
		}
	} else {
		in.pkgInit[p] = 3
		for g, c := range in.globals {
			if g.Pkg == p {
				setTaint(c, 2, 1)
			}
		}
	}
}

// callValue calls a function value (closure, function, builtin, native).
func (in *Interp) callValue(fv Value, args []Value, cc *ssa.CallCommon, site ssa.Instruction, isDefer bool) (Value, *goPanic) {
	f, ok := fv.(*Func)
	if !ok || f == nil {
		return nil, in.runtimePanic("runtime error: invalid memory address or nil pointer dereference (call of nil func)")
	}
	if f.native != nil {
		return f.native(in, args), nil
	}
	if f.fn == nil {
		// builtin
		return in.callBuiltin(f.name, args, cc, isDefer), nil
	}
	in.nextIsDefer = isDefer
	return in.callFunction(f.fn, args, f.env, site)
}

func sortedKeys(m map[string]int) []string {
	var ks []string
	for k := range m {
		ks = append(ks, k)
	}
	sort.Strings(ks)
	return ks
}
