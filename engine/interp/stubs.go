package interp

import (
	"fmt"
	"strconv"
	"go/types"
	"strings"

	"gosym/sym"

	"golang.org/x/tools/go/ssa"
)

type stubFn func(in *Interp, fn *ssa.Function, args []Value) Value

func (in *Interp) callStub(st stubFn, fn *ssa.Function, args []Value) (Value, *goPanic) {
	in.nextIsDefer = false
	return st(in, fn, args), nil
}

// packages whose functions are replaced by "return zero values" (logging, metrics).
var noopPkgPrefixes = []string{
	"github.com/prometheus/",
	"go.uber.org/zap",
	"github.com/absolute8511/glog",
	"github.com/coreos/pkg/capnslog",
	"github.com/youzan/ZanRedisDB/slow",
	"github.com/youzan/ZanRedisDB/stats",
	"github.com/youzan/ZanRedisDB/internal/flume_log",
	"gopkg.in/natefinch/lumberjack.v2",
	"log",
	"runtime/debug",
	"runtime/pprof",
	"os/signal",
}

func isNoopPkg(path string) bool {
	for _, p := range noopPkgPrefixes {
		if path == p || (strings.HasSuffix(p, "/") && strings.HasPrefix(path, p)) || strings.HasPrefix(path, p+"/") {
			return true
		}
	}
	return false
}

func fnPkgPath(fn *ssa.Function) string {
	if fn.Pkg != nil {
		return fn.Pkg.Pkg.Path()
	}
	if fn.Signature.Recv() != nil {
		t := fn.Signature.Recv().Type()
		if p, ok := t.(*types.Pointer); ok {
			t = p.Elem()
		}
		if n, ok := t.(*types.Named); ok && n.Obj().Pkg() != nil {
			return n.Obj().Pkg().Path()
		}
	}
	if o := fn.Origin(); o != nil && o.Pkg != nil {
		return o.Pkg.Pkg.Path()
	}
	return ""
}

// logger-like methods of the repo that are not in a no-op package
var loggerRecv = map[string]bool{
	"github.com/youzan/ZanRedisDB/common.LevelLogger":  true,
	"github.com/youzan/ZanRedisDB/common.MLevelLogger": true,
	"github.com/youzan/ZanRedisDB/raft.DefaultLogger":  true,
	"github.com/youzan/ZanRedisDB/common.MergeLogger":  true,
	"github.com/youzan/ZanRedisDB/common.defaultLogger": true,
	"github.com/youzan/ZanRedisDB/common.zapLogger":    true,
	"github.com/youzan/ZanRedisDB/metric.WriteStats":   true,
	"github.com/youzan/ZanRedisDB/metric.TopNHot":      true,
}

func recvName(fn *ssa.Function) string {
	if fn.Signature.Recv() == nil {
		return ""
	}
	t := fn.Signature.Recv().Type()
	if p, ok := t.(*types.Pointer); ok {
		t = p.Elem()
	}
	if n, ok := t.(*types.Named); ok && n.Obj().Pkg() != nil {
		return n.Obj().Pkg().Path() + "." + n.Obj().Name()
	}
	return ""
}

func (in *Interp) patternStub(fn *ssa.Function) stubFn {
	if st, ok := in.patCache[fn]; ok {
		return st
	}
	var st stubFn
	path := fnPkgPath(fn)
	name := fn.Name()
	isLogger := loggerRecv[recvName(fn)]
	if isNoopPkg(path) || isLogger {
		if fn.Synthetic != "" && strings.Contains(fn.Synthetic, "package initializer") {
			st = func(in *Interp, fn *ssa.Function, args []Value) Value { return nil }
		} else if strings.HasPrefix(name, "Panic") || strings.HasPrefix(name, "Fatal") {
			st = func(in *Interp, fn *ssa.Function, args []Value) Value {
				msg := "logger." + name
				for _, a := range args {
					if s, ok := a.(*Str); ok {
						if cs, ok := s.Concrete(); ok {
							msg += ": " + cs
							break
						}
					}
				}
				in.throw(msg)
				return nil
			}
		} else if isLogger && (name == "Level" || name == "SetLevel" || name == "Logger") {
			st = nil // small real accessors are fine
			if name != "Level" {
				st = zeroStub
			}
		} else {
			st = zeroStub
		}
	}
	if st == nil && (path == "github.com/gogo/protobuf/proto" || path == "github.com/golang/protobuf/proto") && strings.HasPrefix(name, "Register") {
		st = zeroStub
	}
	in.patCache[fn] = st
	return st
}

func zeroStub(in *Interp, fn *ssa.Function, args []Value) Value { return in.zeroResults(fn) }

func termArg(v Value) *sym.Term { return v.(*sym.Term) }

func (in *Interp) concStr(v Value, what string) string {
	s, ok := v.(*Str).Concrete()
	if !ok {
		panic(unmodelled{"symbolic string where a concrete one is required: " + what})
	}
	return s
}

func (in *Interp) errorNew(msg string) Value {
	p := in.prog.ImportedPackage("errors")
	if p == nil {
		panic(unmodelled{"package errors not loaded"})
	}
	v, pan := in.callFunction(p.Func("New"), []Value{in.mkStr(msg)}, nil, nil)
	if pan != nil {
		panic(goPanicSignal{pan})
	}
	return v
}

func buildStubs() map[string]stubFn {
	m := map[string]stubFn{}
	bv := func(w int, kind string) stubFn {
		return func(in *Interp, fn *ssa.Function, args []Value) Value {
			return in.fresh(in.concStr(args[0], "vsym name"), kind, sym.BV(w))
		}
	}
	m["vsym.U8"] = bv(8, "u8")
	m["vsym.U16"] = bv(16, "u16")
	m["vsym.U32"] = bv(32, "u32")
	m["vsym.U64"] = bv(64, "u64")
	m["vsym.I32"] = bv(32, "i32")
	m["vsym.I64"] = bv(64, "i64")
	m["vsym.Int"] = bv(64, "int")
	m["vsym.Bool"] = func(in *Interp, fn *ssa.Function, args []Value) Value {
		return in.fresh(in.concStr(args[0], "vsym name"), "bool", sym.Bool)
	}
	m["vsym.F64"] = func(in *Interp, fn *ssa.Function, args []Value) Value {
		return in.fresh(in.concStr(args[0], "vsym name"), "f64", sym.FP64)
	}
	m["vsym.Bytes"] = func(in *Interp, fn *ssa.Function, args []Value) Value {
		name := in.concStr(args[0], "vsym name")
		n := int(in.concretizeInt(termArg(args[1]), "vsym.Bytes length"))
		b := make([]*sym.Term, n)
		for i := range b {
			b[i] = in.fresh(fmt.Sprintf("%s[%d]", name, i), "u8", sym.BV(8))
		}
		return in.bytesToSlice(b)
	}
	m["vsym.String"] = func(in *Interp, fn *ssa.Function, args []Value) Value {
		name := in.concStr(args[0], "vsym name")
		n := int(in.concretizeInt(termArg(args[1]), "vsym.String length"))
		b := make([]*sym.Term, n)
		for i := range b {
			b[i] = in.fresh(fmt.Sprintf("%s[%d]", name, i), "u8", sym.BV(8))
		}
		return &Str{b}
	}
	m["vsym.Choose"] = func(in *Interp, fn *ssa.Function, args []Value) Value {
		name := in.concStr(args[0], "vsym name")
		k := int(termArg(args[1]).SignedVal())
		t := in.fresh(name, "choose", sym.BV(64))
		if in.opts.ConcreteMode {
			return in.ctx.BVConst(t.C%uint64(k), 64)
		}
		alts := make([]*sym.Term, k)
		for i := range alts {
			alts[i] = in.ctx.Eq(t, in.ctx.BVConst(uint64(i), 64))
		}
		ch := in.decideNoCheck(k, alts)
		if in.modelOK && in.model != nil {
			// t is fresh, hence unconstrained: extend the cached model instead of dropping it
			nm := make(map[string]uint64, len(in.model)+1)
			for k2, v2 := range in.model {
				nm[k2] = v2
			}
			nm[t.Name] = uint64(ch)
			in.model = nm
		}
		return in.ctx.BVConst(uint64(ch), 64)
	}
	m["vsym.Assume"] = func(in *Interp, fn *ssa.Function, args []Value) Value {
		in.assume(termArg(args[0]))
		return nil
	}
	m["vsym.AssumeModel"] = m["vsym.Assume"]
	m["vsym.Assert"] = func(in *Interp, fn *ssa.Function, args []Value) Value {
		in.assertProp(termArg(args[0]), in.concStr(args[1], "assert message"))
		return nil
	}
	m["vsym.Reach"] = func(in *Interp, fn *ssa.Function, args []Value) Value {
		tag := in.concStr(args[0], "reach tag")
		if !in.opts.ConcreteMode {
			in.flushAsserts()
		}
		if in.opts.ConcreteMode || in.events >= in.synced {
			if in.pathUnknown && in.sol != nil && in.sol.Check() != sym.Sat {
				return nil
			}
			in.res.Reach[tag]++
			if tag == "end" && in.sol != nil && len(in.res.Witnesses) < in.opts.Witnesses {
				// spread the samples over the exploration: take paths 0,1,2,4,8,...
				n := in.res.Reach[tag]
				if n <= 2 || n&(n-1) == 0 {
					if in.sol.Check() == sym.Sat {
						if m := in.modelInputs(); m != nil {
							in.res.Witnesses = append(in.res.Witnesses, m)
						}
					}
				}
			}
		}
		return nil
	}
	m["vsym.Thorough"] = func(in *Interp, fn *ssa.Function, args []Value) Value {
		return in.ctx.BoolConst(in.opts.Thorough)
	}
	m["vsym.Tag"] = func(in *Interp, fn *ssa.Function, args []Value) Value {
		in.tags = append(in.tags, in.concStr(args[0], "tag"))
		return nil
	}
	m["vsym.MapOrder"] = func(in *Interp, fn *ssa.Function, args []Value) Value {
		in.opts.MapReverse = termArg(args[0]).C == 1
		return nil
	}
	m["vsym.InlineGoroutines"] = func(in *Interp, fn *ssa.Function, args []Value) Value {
		in.inlineGo = true
		return nil
	}
	m["vsym.FreezeClock"] = func(in *Interp, fn *ssa.Function, args []Value) Value {
		in.frozenClock = termArg(args[0])
		return nil
	}
	m["vsym.SymbolicOnly"] = func(in *Interp, fn *ssa.Function, args []Value) Value {
		in.res.SymbolicOnly = true
		return in.ctx.True
	}
	m["vsym.NoteBool"] = func(in *Interp, fn *ssa.Function, args []Value) Value {
		// a fact computed by the symbolic run (concrete on this path) that the native replay reads back
		t := termArg(args[1])
		if !t.IsConst() {
			panic(unmodelled{"vsym.NoteBool of a symbolic value"})
		}
		name := fmt.Sprintf("%s#%d", in.concStr(args[0], "note name"), in.seq)
		in.seq++
		in.inputs = append(in.inputs, inputRec{name, "note", in.ctx.BVConst(t.C, 64)})
		return t
	}
	m["vsym.Symbolic"] = func(in *Interp, fn *ssa.Function, args []Value) Value {
		return in.ctx.BoolConst(!in.opts.ConcreteMode)
	}
	m["vsym.Observe"] = func(in *Interp, fn *ssa.Function, args []Value) Value {
		tag := in.concStr(args[0], "observe tag")
		var parts []string
		sl := args[1].(Slice)
		for i := 0; i < sl.len; i++ {
			parts = append(parts, in.fmtObserved(in.load(sl.arr.at(sl.off+i))))
		}
		in.observed = append(in.observed, tag+"="+strings.Join(parts, ","))
		if in.opts.ConcreteMode {
			in.res.ObservedTrace = in.observed
		}
		return nil
	}
	m["vsym.Implies"] = func(in *Interp, fn *ssa.Function, args []Value) Value {
		return in.ctx.Implies(termArg(args[0]), termArg(args[1]))
	}
	m["vsym.And"] = func(in *Interp, fn *ssa.Function, args []Value) Value {
		return in.ctx.And(termArg(args[0]), termArg(args[1]))
	}
	m["vsym.Or"] = func(in *Interp, fn *ssa.Function, args []Value) Value {
		return in.ctx.Or(termArg(args[0]), termArg(args[1]))
	}
	m["vsym.IteU64"] = func(in *Interp, fn *ssa.Function, args []Value) Value {
		return in.ctx.Ite(termArg(args[0]), termArg(args[1]), termArg(args[2]))
	}
	m["vsym.IteI64"] = m["vsym.IteU64"]
	m["vsym.IteInt"] = m["vsym.IteU64"]
	m["vsym.IteBool"] = m["vsym.IteU64"]
	m["vsym.IteU8"] = m["vsym.IteU64"]
	m["vsym.BytesEq"] = func(in *Interp, fn *ssa.Function, args []Value) Value {
		return in.strEq(in.sliceBytes(args[0].(Slice)), in.sliceBytes(args[1].(Slice)))
	}
	m["vsym.BytesLess"] = func(in *Interp, fn *ssa.Function, args []Value) Value {
		return in.strLess(in.sliceBytes(args[0].(Slice)), in.sliceBytes(args[1].(Slice)))
	}

	// ---- sync: sequential semantics ----
	for _, n := range []string{
		"(*sync.Mutex).Lock", "(*sync.Mutex).Unlock", "(*sync.RWMutex).Lock", "(*sync.RWMutex).Unlock",
		"(*sync.RWMutex).RLock", "(*sync.RWMutex).RUnlock", "(*sync.WaitGroup).Add", "(*sync.WaitGroup).Done",
		"(*sync.WaitGroup).Wait", "(*sync.Pool).Put", "(*sync.Cond).Broadcast", "(*sync.Cond).Signal",
		"time.Sleep", "runtime.Gosched", "runtime.GC", "runtime.KeepAlive", "runtime.SetFinalizer",
		"os.Exit",
	} {
		m[n] = zeroStub
	}
	m["(*sync.Mutex).TryLock"] = func(in *Interp, fn *ssa.Function, args []Value) Value { return in.ctx.True }
	m["(*sync.Pool).Get"] = func(in *Interp, fn *ssa.Function, args []Value) Value {
		p := args[0].(Ptr)
		// field "New" is the last field of sync.Pool
		st := under(fn.Signature.Recv().Type().(*types.Pointer).Elem()).(*types.Struct)
		for i := 0; i < st.NumFields(); i++ {
			if st.Field(i).Name() == "New" {
				f, _ := p.c.sub[i].v.(*Func)
				if f == nil {
					return Iface{}
				}
				v, pan := in.callValue(f, nil, nil, nil, false)
				if pan != nil {
					panic(goPanicSignal{pan})
				}
				return v
			}
		}
		return Iface{}
	}
	m["(*sync.Once).Do"] = func(in *Interp, fn *ssa.Function, args []Value) Value {
		p := args[0].(Ptr)
		// use the first leaf cell as the done flag
		c := p.c
		for c.sub != nil {
			c = c.sub[0]
		}
		if t, ok := c.v.(*sym.Term); ok && t.IsConst() && t.C != 0 {
			return nil
		}
		in.store(c, in.ctx.BVConst(1, c.v.(*sym.Term).S.W))
		_, pan := in.callValue(args[1], nil, nil, nil, false)
		if pan != nil {
			panic(goPanicSignal{pan})
		}
		return nil
	}
	// sync/atomic
	atomicLoad := func(in *Interp, fn *ssa.Function, args []Value) Value {
		p := args[0].(Ptr)
		if p.c == nil {
			in.throw("runtime error: invalid memory address or nil pointer dereference")
		}
		return in.load(p.c)
	}
	atomicStore := func(in *Interp, fn *ssa.Function, args []Value) Value {
		p := args[0].(Ptr)
		if p.c == nil {
			in.throw("runtime error: invalid memory address or nil pointer dereference")
		}
		in.store(p.c, args[1])
		return nil
	}
	atomicAdd := func(in *Interp, fn *ssa.Function, args []Value) Value {
		p := args[0].(Ptr)
		if p.c == nil {
			in.throw("runtime error: invalid memory address or nil pointer dereference")
		}
		n := in.ctx.Add(in.load(p.c).(*sym.Term), termArg(args[1]))
		in.store(p.c, n)
		return n
	}
	atomicSwap := func(in *Interp, fn *ssa.Function, args []Value) Value {
		p := args[0].(Ptr)
		old := in.load(p.c)
		in.store(p.c, args[1])
		return old
	}
	atomicCAS := func(in *Interp, fn *ssa.Function, args []Value) Value {
		p := args[0].(Ptr)
		cur := in.load(p.c)
		eq := in.valuesEqual(cur, args[1])
		if in.branch(eq) {
			in.store(p.c, args[2])
			return in.ctx.True
		}
		return in.ctx.False
	}
	for _, t := range []string{"Int32", "Int64", "Uint32", "Uint64", "Uintptr", "Pointer"} {
		m["sync/atomic.Load"+t] = atomicLoad
		m["sync/atomic.Store"+t] = atomicStore
		m["sync/atomic.Swap"+t] = atomicSwap
		m["sync/atomic.CompareAndSwap"+t] = atomicCAS
		if t != "Pointer" {
			m["sync/atomic.Add"+t] = atomicAdd
		}
	}
	m["(*sync/atomic.Value).Load"] = func(in *Interp, fn *ssa.Function, args []Value) Value {
		p := args[0].(Ptr)
		v := in.load(p.c.sub[0])
		if v == nil {
			return Iface{}
		}
		return v
	}
	m["(*sync/atomic.Value).Store"] = func(in *Interp, fn *ssa.Function, args []Value) Value {
		p := args[0].(Ptr)
		in.store(p.c.sub[0], args[1])
		return nil
	}

	// ---- bytealg ----
	m["internal/bytealg.Compare"] = func(in *Interp, fn *ssa.Function, args []Value) Value {
		return in.strCompare(in.sliceBytes(args[0].(Slice)), in.sliceBytes(args[1].(Slice)))
	}
	m["bytes.Compare"] = m["internal/bytealg.Compare"]
	m["bytes.Equal"] = func(in *Interp, fn *ssa.Function, args []Value) Value {
		return in.strEq(in.sliceBytes(args[0].(Slice)), in.sliceBytes(args[1].(Slice)))
	}
	m["internal/bytealg.Equal"] = m["bytes.Equal"]
	m["strings.Compare"] = func(in *Interp, fn *ssa.Function, args []Value) Value {
		return in.strCompare(args[0].(*Str).b, args[1].(*Str).b)
	}
	indexByte := func(in *Interp, b []*sym.Term, c *sym.Term) Value {
		// first index i with b[i]==c, else -1: fork-free ite chain
		res := in.ctx.BVConst(^uint64(0), 64)
		for i := len(b) - 1; i >= 0; i-- {
			res = in.ctx.Ite(in.ctx.Eq(b[i], c), in.ctx.BVConst(uint64(i), 64), res)
		}
		return res
	}
	m["internal/bytealg.IndexByte"] = func(in *Interp, fn *ssa.Function, args []Value) Value {
		return indexByte(in, in.sliceBytes(args[0].(Slice)), termArg(args[1]))
	}
	m["internal/bytealg.IndexByteString"] = func(in *Interp, fn *ssa.Function, args []Value) Value {
		return indexByte(in, args[0].(*Str).b, termArg(args[1]))
	}
	count := func(in *Interp, b []*sym.Term, c *sym.Term) Value {
		res := in.ctx.BVConst(0, 64)
		for i := range b {
			res = in.ctx.Add(res, in.ctx.Ite(in.ctx.Eq(b[i], c), in.ctx.BVConst(1, 64), in.ctx.BVConst(0, 64)))
		}
		return res
	}
	m["internal/bytealg.Count"] = func(in *Interp, fn *ssa.Function, args []Value) Value {
		return count(in, in.sliceBytes(args[0].(Slice)), termArg(args[1]))
	}
	m["internal/bytealg.CountString"] = func(in *Interp, fn *ssa.Function, args []Value) Value {
		return count(in, args[0].(*Str).b, termArg(args[1]))
	}
	index := func(in *Interp, a, b []*sym.Term) Value {
		res := in.ctx.BVConst(^uint64(0), 64)
		for i := len(a) - len(b); i >= 0; i-- {
			res = in.ctx.Ite(in.strEq(a[i:i+len(b)], b), in.ctx.BVConst(uint64(i), 64), res)
		}
		return res
	}
	m["internal/bytealg.Index"] = func(in *Interp, fn *ssa.Function, args []Value) Value {
		return index(in, in.sliceBytes(args[0].(Slice)), in.sliceBytes(args[1].(Slice)))
	}
	m["internal/bytealg.IndexString"] = func(in *Interp, fn *ssa.Function, args []Value) Value {
		return index(in, args[0].(*Str).b, args[1].(*Str).b)
	}
	m["strings.Index"] = m["internal/bytealg.IndexString"]
	m["bytes.Index"] = m["internal/bytealg.Index"]
	m["internal/bytealg.MakeNoZero"] = func(in *Interp, fn *ssa.Function, args []Value) Value {
		n := int(in.concretizeInt(termArg(args[0]), "MakeNoZero"))
		return Slice{arr: in.newArrayCell(n, in.byteConst[0]), len: n, cap: n}
	}
	m["internal/stringslite.Clone"] = func(in *Interp, fn *ssa.Function, args []Value) Value { return args[0] }
	m["strings.Clone"] = m["internal/stringslite.Clone"]
	m["(*strings.Builder).String"] = func(in *Interp, fn *ssa.Function, args []Value) Value {
		p := args[0].(Ptr)
		// strings.Builder{addr *Builder; buf []byte}
		s := in.load(p.c.sub[1]).(Slice)
		if s.len == 0 {
			return in.emptyStr
		}
		return &Str{in.sliceBytes(s)}
	}
	m["(*strings.Builder).copyCheck"] = zeroStub
	m["(*strings.Builder).grow"] = zeroStub
	m["(*strings.Builder).Grow"] = zeroStub

	// ---- strings.ToLower / ToUpper: exact on ASCII; non-ASCII input ends the path as an engine-imposed bound ----
	caseMap := func(lower bool) stubFn {
		return func(in *Interp, fn *ssa.Function, args []Value) Value {
			s := args[0].(*Str)
			c := in.ctx
			ascii := c.True
			for _, b := range s.b {
				ascii = c.And(ascii, c.ULT(b, c.BVConst(0x80, 8)))
			}
			if !in.branch(ascii) {
				in.res.Assumes["engine: strings.ToLower/ToUpper modelled for ASCII input only"]++
				panic(pathEnd{"assume"})
			}
			out := make([]*sym.Term, len(s.b))
			for i, b := range s.b {
				lo, hi, d := uint64('A'), uint64('Z'), uint64(32)
				if !lower {
					lo, hi = 'a', 'z'
				}
				in := c.And(c.ULE(c.BVConst(lo, 8), b), c.ULE(b, c.BVConst(hi, 8)))
				if lower {
					out[i] = c.Ite(in, c.Add(b, c.BVConst(d, 8)), b)
				} else {
					out[i] = c.Ite(in, c.Sub(b, c.BVConst(d, 8)), b)
				}
			}
			return &Str{out}
		}
	}
	m["strings.ToLower"] = caseMap(true)
	m["strings.ToUpper"] = caseMap(false)
	m["bytes.ToLower"] = func(in *Interp, fn *ssa.Function, args []Value) Value {
		r := caseMap(true)(in, fn, []Value{&Str{in.sliceBytes(args[0].(Slice))}}).(*Str)
		return in.bytesToSlice(r.b)
	}

	// error texts built from (possibly symbolic) input are opaque
	m["(*strconv.NumError).Error"] = func(in *Interp, fn *ssa.Function, args []Value) Value { return in.mkStr("strconv: <numerror>") }
	m["strconv.Quote"] = func(in *Interp, fn *ssa.Function, args []Value) Value {
		if cs, ok := args[0].(*Str).Concrete(); ok {
			return in.mkStr(strconv.Quote(cs))
		}
		return in.mkStr("\"<quoted>\"")
	}

	// ---- math ----
	m["math.Float64bits"] = func(in *Interp, fn *ssa.Function, args []Value) Value {
		return in.floatBits(termArg(args[0]))
	}
	m["math.Float64frombits"] = func(in *Interp, fn *ssa.Function, args []Value) Value {
		return in.ctx.FFromBits(termArg(args[0]))
	}
	m["math.IsNaN"] = func(in *Interp, fn *ssa.Function, args []Value) Value {
		return in.ctx.FIsNaN(termArg(args[0]))
	}

	// ---- math/bits (compiler intrinsics on amd64; table driven in the library source) ----
	bitsLen := func(w int) stubFn {
		return func(in *Interp, fn *ssa.Function, args []Value) Value {
			x := termArg(args[0])
			if x.IsConst() {
				n := 0
				for v := x.C; v != 0; v >>= 1 {
					n++
				}
				return in.ctx.BVConst(uint64(n), 64)
			}
			res := in.ctx.BVConst(0, 64)
			for i := 0; i < w; i++ {
				res = in.ctx.Ite(in.ctx.ULE(in.ctx.BVConst(uint64(1)<<uint(i), x.S.W), x), in.ctx.BVConst(uint64(i+1), 64), res)
			}
			return res
		}
	}
	m["math/bits.Len64"] = bitsLen(64)
	m["math/bits.Len32"] = bitsLen(32)
	m["math/bits.Len16"] = bitsLen(16)
	m["math/bits.Len8"] = bitsLen(8)
	m["math/bits.Len"] = bitsLen(64)
	lz := func(w int) stubFn {
		l := bitsLen(w)
		return func(in *Interp, fn *ssa.Function, args []Value) Value {
			return in.ctx.Sub(in.ctx.BVConst(uint64(w), 64), l(in, fn, args).(*sym.Term))
		}
	}
	m["math/bits.LeadingZeros64"] = lz(64)
	m["math/bits.LeadingZeros32"] = lz(32)
	m["math/bits.LeadingZeros"] = lz(64)

	// ---- hashing as uninterpreted functions ----
	crcUF := func(in *Interp, crc *sym.Term, b []*sym.Term) *sym.Term {
		// chain one byte at a time so that encoder and decoder agree however they chunk their writes
		for _, x := range b {
			crc = in.ctx.UF("crc32_step", sym.BV(32), crc, x)
		}
		return crc
	}
	m["hash/crc32.Update"] = func(in *Interp, fn *ssa.Function, args []Value) Value {
		return crcUF(in, termArg(args[0]), in.sliceBytes(args[2].(Slice)))
	}
	m["hash/crc32.update"] = m["hash/crc32.Update"]
	m["hash/crc32.MakeTable"] = func(in *Interp, fn *ssa.Function, args []Value) Value {
		poly := termArg(args[0])
		key := fmt.Sprintf("crc32table:%x", poly.C)
		if c, ok := in.named[key]; ok {
			return Ptr{c}
		}
		save := in.epoch
		in.epoch = 0
		c := in.newArrayCell(256, in.ctx.BVConst(0, 32))
		in.epoch = save
		in.named[key] = c
		return Ptr{c}
	}
	m["github.com/twmb/murmur3.Sum32"] = func(in *Interp, fn *ssa.Function, args []Value) Value {
		b := in.sliceBytes(args[0].(Slice))
		return in.ctx.UF(fmt.Sprintf("murmur3_sum32_%d", len(b)), sym.BV(32), b...)
	}
	m["github.com/spaolacci/murmur3.Sum32"] = m["github.com/twmb/murmur3.Sum32"]

	// ---- fmt / errors ----
	m["fmt.Sprintf"] = func(in *Interp, fn *ssa.Function, args []Value) Value {
		return in.sprintf(args[0], args[1].(Slice))
	}
	m["fmt.Sprint"] = func(in *Interp, fn *ssa.Function, args []Value) Value { return in.mkStr("<fmt.Sprint>") }
	m["fmt.Sprintln"] = func(in *Interp, fn *ssa.Function, args []Value) Value { return in.mkStr("<fmt.Sprintln>") }
	m["fmt.Errorf"] = func(in *Interp, fn *ssa.Function, args []Value) Value {
		s := in.sprintf(args[0], args[1].(Slice)).(*Str)
		cs, _ := s.Concrete()
		return in.errorNew(cs)
	}
	for _, n := range []string{"fmt.Printf", "fmt.Println", "fmt.Print", "fmt.Fprintf", "fmt.Fprintln", "fmt.Fprint"} {
		m[n] = zeroStub
	}
	m["errors.Is"] = func(in *Interp, fn *ssa.Function, args []Value) Value {
		return in.valuesEqual(args[0], args[1])
	}

	// ---- sort.Slice (reflection based in the library) ----
	sortSlice := func(in *Interp, fn *ssa.Function, args []Value) Value {
		s := args[0].(Iface).v.(Slice)
		less := args[1]
		// insertion sort (stable), same result as any correct sort for strict weak orders
		for i := 1; i < s.len; i++ {
			for j := i; j > 0; j-- {
				r, pan := in.callValue(less, []Value{in.ctx.BVConst(uint64(j), 64), in.ctx.BVConst(uint64(j-1), 64)}, nil, nil, false)
				if pan != nil {
					panic(goPanicSignal{pan})
				}
				if !in.branch(r.(*sym.Term)) {
					break
				}
				a, b := s.arr.at(s.off+j), s.arr.at(s.off+j-1)
				va, vb := in.load(a), in.load(b)
				in.store(a, vb)
				in.store(b, va)
			}
		}
		return nil
	}
	m["sort.Slice"] = sortSlice
	m["sort.SliceStable"] = sortSlice

	// ---- time ----
	m["time.Now"] = func(in *Interp, fn *ssa.Function, args []Value) Value {
		// Time{wall uint64, ext int64, loc *Location}; we keep unix nanoseconds in ext, wall = 0 marker
		if in.initMode {
			return &Agg{e: []Value{in.ctx.BVConst(0, 64), in.ctx.BVConst(1700000000000000000, 64), Ptr{}}}
		}
		if in.frozenClock != nil {
			return &Agg{e: []Value{in.ctx.BVConst(0, 64), in.frozenClock, Ptr{}}}
		}
		t := in.freshEnv("time.Now", sym.BV(64))
		if in.timeSeq != nil && !in.opts.ConcreteMode {
			in.assume(in.ctx.SLE(in.timeSeq, t))
		}
		in.timeSeq = t
		return &Agg{e: []Value{in.ctx.BVConst(0, 64), t, Ptr{}}}
	}
	m["(time.Time).UnixNano"] = func(in *Interp, fn *ssa.Function, args []Value) Value {
		return args[0].(*Agg).e[1]
	}
	m["(time.Time).Unix"] = func(in *Interp, fn *ssa.Function, args []Value) Value {
		return in.ctx.SDiv(args[0].(*Agg).e[1].(*sym.Term), in.ctx.BVConst(1000000000, 64))
	}
	m["(time.Time).Sub"] = func(in *Interp, fn *ssa.Function, args []Value) Value {
		return in.ctx.Sub(args[0].(*Agg).e[1].(*sym.Term), args[1].(*Agg).e[1].(*sym.Term))
	}
	m["time.Since"] = func(in *Interp, fn *ssa.Function, args []Value) Value {
		now := m["time.Now"](in, fn, nil).(*Agg)
		return in.ctx.Sub(now.e[1].(*sym.Term), args[0].(*Agg).e[1].(*sym.Term))
	}
	m["(time.Time).Before"] = func(in *Interp, fn *ssa.Function, args []Value) Value {
		return in.ctx.SLT(args[0].(*Agg).e[1].(*sym.Term), args[1].(*Agg).e[1].(*sym.Term))
	}
	m["(time.Time).After"] = func(in *Interp, fn *ssa.Function, args []Value) Value {
		return in.ctx.SLT(args[1].(*Agg).e[1].(*sym.Term), args[0].(*Agg).e[1].(*sym.Term))
	}
	m["(time.Time).Add"] = func(in *Interp, fn *ssa.Function, args []Value) Value {
		a := args[0].(*Agg)
		return &Agg{e: []Value{a.e[0], in.ctx.Add(a.e[1].(*sym.Term), termArg(args[1])), a.e[2]}}
	}
	m["(time.Time).IsZero"] = func(in *Interp, fn *ssa.Function, args []Value) Value {
		return in.ctx.Eq(args[0].(*Agg).e[1].(*sym.Term), in.ctx.BVConst(0, 64))
	}
	m["(time.Time).String"] = func(in *Interp, fn *ssa.Function, args []Value) Value { return in.mkStr("<time>") }
	m["(time.Duration).String"] = func(in *Interp, fn *ssa.Function, args []Value) Value { return in.mkStr("<duration>") }

	// ---- regexp: compiled patterns are opaque objects; matching is not modelled ----
	reCompile := func(in *Interp, fn *ssa.Function, args []Value) Value {
		rt := fn.Signature.Results().At(0).Type().(*types.Pointer).Elem()
		p := Ptr{in.newCell(in.zero(rt))}
		if fn.Signature.Results().Len() == 2 {
			return Tuple{p, Iface{}}
		}
		return p
	}
	m["regexp.MustCompile"] = reCompile
	m["regexp.Compile"] = reCompile
	m["regexp.MustCompilePOSIX"] = reCompile

	// ---- logger constructors: opaque zero objects (their methods are no-ops) ----
	allocZero := func(in *Interp, fn *ssa.Function, args []Value) Value {
		rt := fn.Signature.Results().At(0).Type()
		if pt, ok := under(rt).(*types.Pointer); ok {
			return Ptr{in.newCell(in.zero(pt.Elem()))}
		}
		return in.zero(rt)
	}
	for _, n := range []string{"NewDefaultLogger", "NewLogger", "newZapLogger", "NewMergeLogger"} {
		m["github.com/youzan/ZanRedisDB/common."+n] = allocZero
	}

	m["github.com/gogo/protobuf/proto.CompactTextString"] = func(in *Interp, fn *ssa.Function, args []Value) Value { return in.mkStr("<proto>") }
	m["github.com/golang/protobuf/proto.CompactTextString"] = m["github.com/gogo/protobuf/proto.CompactTextString"]
	m["github.com/gogo/protobuf/proto.EnumName"] = func(in *Interp, fn *ssa.Function, args []Value) Value { return in.mkStr("<enum>") }
	m["(*github.com/youzan/ZanRedisDB/raft.lockedRand).Intn"] = func(in *Interp, fn *ssa.Function, args []Value) Value {
		n := termArg(args[1])
		if n.IsConst() && n.SignedVal() <= 0 {
			in.throw("invalid argument to Intn")
		}
		t := in.freshEnv("rand.Intn", sym.BV(64))
		if in.opts.ConcreteMode {
			return in.ctx.URem(t, n)
		}
		in.assume(in.ctx.And(in.ctx.SLE(in.ctx.BVConst(0, 64), t), in.ctx.SLT(t, n)))
		return t
	}

	// ---- math/rand: opaque generators, results are fresh symbolic values in range ----
	m["math/rand.NewSource"] = func(in *Interp, fn *ssa.Function, args []Value) Value { return Iface{} }
	m["math/rand.New"] = allocZero
	randIntn := func(argIdx int) stubFn {
		return func(in *Interp, fn *ssa.Function, args []Value) Value {
			n := termArg(args[argIdx])
			t := in.freshEnv("rand", n.S)
			if in.opts.ConcreteMode || in.initMode {
				return in.ctx.BVConst(0, n.S.W)
			}
			in.assume(in.ctx.And(in.ctx.SLE(in.ctx.BVConst(0, n.S.W), t), in.ctx.SLT(t, n)))
			return t
		}
	}
	m["(*math/rand.Rand).Intn"] = randIntn(1)
	m["(*math/rand.Rand).Int63n"] = randIntn(1)
	m["(*math/rand.Rand).Int31n"] = randIntn(1)
	m["math/rand.Intn"] = randIntn(0)
	m["math/rand.Int63n"] = randIntn(0)
	m["math/rand.Int31n"] = randIntn(0)
	m["math/rand.Seed"] = zeroStub
	m["(*math/rand.Rand).Seed"] = zeroStub

	// ---- files: durability calls succeed; the harness supplies the writer and observes what reaches it ----
	nilErr := func(in *Interp, fn *ssa.Function, args []Value) Value { return Iface{} }
	m["github.com/youzan/ZanRedisDB/pkg/fileutil.Fdatasync"] = func(in *Interp, fn *ssa.Function, args []Value) Value {
		in.res.Stubs["env: fdatasync calls"]++
		in.fsyncCalls++
		return Iface{}
	}
	m["github.com/youzan/ZanRedisDB/pkg/fileutil.Fsync"] = m["github.com/youzan/ZanRedisDB/pkg/fileutil.Fdatasync"]
	m["(*os.File).Sync"] = nilErr
	m["(*os.File).Seek"] = func(in *Interp, fn *ssa.Function, args []Value) Value {
		// position of an opaque file: offset 0 (below every size threshold)
		return Tuple{in.ctx.BVConst(0, 64), Iface{}}
	}
	m["vsym.FsyncCalls"] = func(in *Interp, fn *ssa.Function, args []Value) Value {
		return in.ctx.BVConst(uint64(in.fsyncCalls), 64)
	}

	// settings: no overwrite file present (soft/static settings keep their defaults)
	m["github.com/youzan/ZanRedisDB/settings.overwriteSettingsWithFile"] = zeroStub

	// ---- misc runtime ----
	m["runtime.Caller"] = zeroStub
	m["runtime.Callers"] = zeroStub
	m["runtime.Stack"] = zeroStub
	m["runtime.NumGoroutine"] = zeroStub
	m["runtime.NumCPU"] = func(in *Interp, fn *ssa.Function, args []Value) Value { return in.ctx.BVConst(4, 64) }
	m["runtime.GOMAXPROCS"] = func(in *Interp, fn *ssa.Function, args []Value) Value { return in.ctx.BVConst(4, 64) }
	m["os.Getenv"] = func(in *Interp, fn *ssa.Function, args []Value) Value { return in.emptyStr }
	m["os.Getpid"] = func(in *Interp, fn *ssa.Function, args []Value) Value { return in.ctx.BVConst(4242, 64) }
	m["os.Hostname"] = func(in *Interp, fn *ssa.Function, args []Value) Value {
		return Tuple{in.mkStr("verif-host"), Iface{}}
	}
	return m
}

// decideNoCheck is decide for alternatives that are all feasible by construction (fresh variable = i).
func (in *Interp) decideNoCheck(k int, alts []*sym.Term) int {
	return in.decideX(k, alts, true)
}

// floatBits implements math.Float64bits.
func (in *Interp) floatBits(f *sym.Term) *sym.Term {
	if f.IsConst() {
		return in.ctx.BVConst(f.C, 64)
	}
	if f.Op == sym.OFFromBits {
		return f.Args[0]
	}
	// fresh bits b with to_fp(b) == f (bitwise: use fp "=" via assume on both isNaN and eq)
	b := in.ctx.Var(fmt.Sprintf("fbits!%d", f.ID), sym.BV(64))
	in.auxVars = append(in.auxVars, b)
	back := in.ctx.FFromBits(b)
	same := in.ctx.Or(in.ctx.And(in.ctx.FIsNaN(f), in.ctx.FIsNaN(back)), in.ctx.And(in.ctx.FEq(f, back), in.ctx.Eq(in.signBit(b), in.fpSign(f))))
	in.assume(same)
	return b
}

func (in *Interp) signBit(b *sym.Term) *sym.Term {
	return in.ctx.Eq(in.ctx.Extract(b, 63, 63), in.ctx.BVConst(1, 1))
}

func (in *Interp) fpSign(f *sym.Term) *sym.Term {
	// sign of f: f < 0 or f is -0: 1/f < 0
	one := in.ctx.FPConst(1)
	zero := in.ctx.FPConst(0)
	return in.ctx.Or(in.ctx.FLt(f, zero), in.ctx.And(in.ctx.FEq(f, zero), in.ctx.FLt(in.ctx.FDiv(one, f), zero)))
}

func (in *Interp) fmtObserved(v Value) string {
	if i, ok := v.(Iface); ok {
		if i.t == nil {
			return "nil"
		}
		if types.Implements(i.t, errorIface) {
			return "err"
		}
		_, signed, isInt := intInfo(i.t)
		switch x := i.v.(type) {
		case *sym.Term:
			if !x.IsConst() {
				return x.String()
			}
			switch {
			case x.S.K == sym.KBool:
				if x.C == 1 {
					return "true"
				}
				return "false"
			case x.S.K == sym.KFP:
				return fmt.Sprintf("f%016x", x.C)
			case isInt && signed:
				return fmt.Sprint(x.SignedVal())
			default:
				return fmt.Sprint(x.C)
			}
		case *Str:
			return "x" + hexTerms(x.b)
		case Slice:
			if x.arr == nil {
				return "x"
			}
			if x.len > 0 {
				if _, ok := x.arr.at(x.off).v.(*sym.Term); !ok {
					return fmt.Sprintf("slice[%d]", x.len)
				}
			}
			return "x" + hexTerms(in.sliceBytes(x))
		case Ptr:
			if x.c == nil {
				return "nilptr"
			}
			return "ptr"
		}
		return fmt.Sprintf("<%s>", i.t.String())
	}
	return fmt.Sprintf("<%T>", v)
}

var errorIface = types.Universe.Lookup("error").Type().Underlying().(*types.Interface)

func hexTerms(b []*sym.Term) string {
	var sb strings.Builder
	for _, t := range b {
		if t.IsConst() {
			fmt.Fprintf(&sb, "%02x", t.C)
		} else {
			sb.WriteString("??")
		}
	}
	return sb.String()
}

// sprintf formats with concrete arguments where possible; otherwise returns an opaque marker string.
func (in *Interp) sprintf(format Value, args Slice) Value {
	f, ok := format.(*Str).Concrete()
	if !ok {
		return in.mkStr("<fmt>")
	}
	var gargs []interface{}
	for i := 0; i < args.len; i++ {
		iv, ok := in.load(args.arr.at(args.off+i)).(Iface)
		if !ok || iv.t == nil {
			gargs = append(gargs, nil)
			continue
		}
		_, signed, isInt := intInfo(iv.t)
		switch x := iv.v.(type) {
		case *sym.Term:
			if !x.IsConst() {
				return in.mkStr("<fmt:" + f + ">")
			}
			switch {
			case x.S.K == sym.KBool:
				gargs = append(gargs, x.C == 1)
			case x.S.K == sym.KFP:
				gargs = append(gargs, x.Float())
			case isInt && signed:
				gargs = append(gargs, x.SignedVal())
			default:
				gargs = append(gargs, x.C)
			}
		case *Str:
			cs, ok := x.Concrete()
			if !ok {
				return in.mkStr("<fmt:" + f + ">")
			}
			gargs = append(gargs, cs)
		case Slice:
			if isByteSliceType(iv.t) {
				bs := in.sliceBytes(x)
				cs, ok := (&Str{bs}).Concrete()
				if !ok {
					return in.mkStr("<fmt:" + f + ">")
				}
				gargs = append(gargs, []byte(cs))
				continue
			}
			return in.mkStr("<fmt:" + f + ">")
		default:
			return in.mkStr("<fmt:" + f + ">")
		}
	}
	return in.mkStr(fmt.Sprintf(f, gargs...))
}

func isByteSliceType(t types.Type) bool {
	s, ok := under(t).(*types.Slice)
	return ok && isByteType(s.Elem())
}
