package interp

import "gosym/sym"

// Cheap unsigned interval reasoning over the path condition: bounds learned from constraints of the
// form x <u C / x <=u C / x = C (and their negations) let many byte-class branches of generated
// protobuf code be decided without a solver call. Sound: every interval over-approximates the values the
// term can take under the constraints added so far on this path.

type urng struct{ lo, hi uint64 }

func umask(w int) uint64 {
	if w >= 64 {
		return ^uint64(0)
	}
	return (uint64(1) << uint(w)) - 1
}

func (in *Interp) learn(t *sym.Term) {
	switch t.Op {
	case sym.OAnd:
		for _, a := range t.Args {
			in.learn(a)
		}
	case sym.OULT, sym.OULE:
		a, b := t.Args[0], t.Args[1]
		if b.IsConst() && !a.IsConst() {
			c := b.C
			if t.Op == sym.OULT {
				if c == 0 {
					return
				}
				c--
			}
			in.setUB(a, c)
		} else if a.IsConst() && !b.IsConst() {
			c := a.C
			if t.Op == sym.OULT {
				if c == umask(b.S.W) {
					return
				}
				c++
			}
			in.setLB(b, c)
		}
	case sym.ONot:
		x := t.Args[0]
		if x.Op == sym.OULT || x.Op == sym.OULE {
			a, b := x.Args[0], x.Args[1]
			if b.IsConst() && !a.IsConst() {
				// not (a < C) => a >= C ; not (a <= C) => a >= C+1
				c := b.C
				if x.Op == sym.OULE {
					if c == umask(a.S.W) {
						return
					}
					c++
				}
				in.setLB(a, c)
			} else if a.IsConst() && !b.IsConst() {
				// not (C < b) => b <= C ; not (C <= b) => b <= C-1
				c := a.C
				if x.Op == sym.OULE {
					if c == 0 {
						return
					}
					c--
				}
				in.setUB(b, c)
			}
		}
	case sym.OEq:
		a, b := t.Args[0], t.Args[1]
		if a.S.K != sym.KBV {
			return
		}
		if b.IsConst() && !a.IsConst() {
			in.setUB(a, b.C)
			in.setLB(a, b.C)
		} else if a.IsConst() && !b.IsConst() {
			in.setUB(b, a.C)
			in.setLB(b, a.C)
		}
	}
}

func (in *Interp) setUB(t *sym.Term, c uint64) {
	if in.ub == nil {
		in.ub = map[int]uint64{}
	}
	if old, ok := in.ub[t.ID]; !ok || c < old {
		in.ub[t.ID] = c
	}
}

func (in *Interp) setLB(t *sym.Term, c uint64) {
	if in.lb == nil {
		in.lb = map[int]uint64{}
	}
	if old, ok := in.lb[t.ID]; !ok || c > old {
		in.lb[t.ID] = c
	}
}

func (in *Interp) urange(t *sym.Term, depth int) urng {
	w := t.S.W
	full := urng{0, umask(w)}
	if t.IsConst() {
		return urng{t.C, t.C}
	}
	r := full
	if depth > 0 {
		switch t.Op {
		case sym.OZExt:
			r = in.urange(t.Args[0], depth-1)
		case sym.OExtract:
			if t.A1 == 0 {
				a := in.urange(t.Args[0], depth-1)
				if a.hi <= umask(t.A0+1) {
					r = a
				}
			}
		case sym.OBAnd:
			a, b := in.urange(t.Args[0], depth-1), in.urange(t.Args[1], depth-1)
			h := a.hi
			if b.hi < h {
				h = b.hi
			}
			r = urng{0, h}
		case sym.OBOr:
			a, b := in.urange(t.Args[0], depth-1), in.urange(t.Args[1], depth-1)
			// a|b <= a+b, and < next power of two above max
			if a.hi+b.hi >= a.hi && a.hi+b.hi <= umask(w) {
				l := a.lo
				if b.lo > l {
					l = b.lo
				}
				r = urng{l, a.hi + b.hi}
			}
		case sym.OAdd:
			a, b := in.urange(t.Args[0], depth-1), in.urange(t.Args[1], depth-1)
			if a.hi+b.hi >= a.hi && a.hi+b.hi <= umask(w) {
				r = urng{a.lo + b.lo, a.hi + b.hi}
			}
		case sym.OLShr:
			if t.Args[1].IsConst() && t.Args[1].C < 64 {
				a := in.urange(t.Args[0], depth-1)
				r = urng{a.lo >> t.Args[1].C, a.hi >> t.Args[1].C}
			}
		case sym.OShl:
			if t.Args[1].IsConst() && t.Args[1].C < 64 {
				a := in.urange(t.Args[0], depth-1)
				k := t.Args[1].C
				if a.hi <= umask(w)>>k {
					r = urng{a.lo << k, a.hi << k}
				}
			}
		case sym.OIte:
			a, b := in.urange(t.Args[1], depth-1), in.urange(t.Args[2], depth-1)
			r = a
			if b.lo < r.lo {
				r.lo = b.lo
			}
			if b.hi > r.hi {
				r.hi = b.hi
			}
		case sym.OURem:
			if t.Args[1].IsConst() && t.Args[1].C > 0 {
				r = urng{0, t.Args[1].C - 1}
			}
		}
	}
	if u, ok := in.ub[t.ID]; ok && u < r.hi {
		r.hi = u
	}
	if l, ok := in.lb[t.ID]; ok && l > r.lo {
		r.lo = l
	}
	if r.lo > r.hi {
		// contradictory bounds: the path is infeasible; let the solver say so
		return full
	}
	return r
}

// decideByRange tries to decide a boolean term from the learned intervals.
func (in *Interp) decideByRange(c *sym.Term) (val bool, ok bool) {
	if len(in.ub) == 0 && len(in.lb) == 0 {
		return false, false
	}
	switch c.Op {
	case sym.ONot:
		v, ok := in.decideByRange(c.Args[0])
		return !v, ok
	case sym.OULT, sym.OULE, sym.OEq:
		a, b := c.Args[0], c.Args[1]
		if a.S.K != sym.KBV {
			return false, false
		}
		ra, rb := in.urange(a, 6), in.urange(b, 6)
		switch c.Op {
		case sym.OULT:
			if ra.hi < rb.lo {
				return true, true
			}
			if ra.lo >= rb.hi {
				return false, true
			}
		case sym.OULE:
			if ra.hi <= rb.lo {
				return true, true
			}
			if ra.lo > rb.hi {
				return false, true
			}
		case sym.OEq:
			if ra.hi < rb.lo || rb.hi < ra.lo {
				return false, true
			}
			if ra.lo == ra.hi && rb.lo == rb.hi && ra.lo == rb.lo {
				return true, true
			}
		}
	case sym.OSLT, sym.OSLE:
		a, b := c.Args[0], c.Args[1]
		ra, rb := in.urange(a, 6), in.urange(b, 6)
		top := uint64(1) << uint(a.S.W-1)
		if ra.hi < top && rb.hi < top {
			// both non-negative: signed order = unsigned order
			if c.Op == sym.OSLT {
				if ra.hi < rb.lo {
					return true, true
				}
				if ra.lo >= rb.hi {
					return false, true
				}
			} else {
				if ra.hi <= rb.lo {
					return true, true
				}
				if ra.lo > rb.hi {
					return false, true
				}
			}
		}
	}
	return false, false
}
