// Package interp is a symbolic executor for Go SSA ("concrete structure,
// symbolic leaves"): pointers, slice geometry, map structure and dynamic types
// are concrete, scalar leaves are SMT terms.
package interp

import (
	"fmt"
	"go/types"
	"strings"

	"gosym/sym"

	"golang.org/x/tools/go/ssa"
)

// Value is one of:
//
//	*sym.Term  (bool, integers as bit-vectors, float64)
//	*Str       (string: concrete length, symbolic bytes)
//	Ptr        (pointer to a cell; zero value = nil pointer)
//	Slice      (backing array cell, offset, len, cap; arr==nil = nil slice)
//	*Agg       (struct or array value)
//	Iface      (dynamic type + value; t==nil = nil interface)
//	*Func      (closure / function / bound native; nil pointer = nil func)
//	*MapObj    (reference; nil pointer = nil map)
//	*ChanObj   (reference; nil pointer = nil chan)
//	Tuple      (multi-value result)
//	*RangeIter (result of ssa.Range)
type Value interface{}

type Cell struct {
	v     Value
	sub   []*Cell
	epoch int32
	lazyZ Value // array cells of scalars: elements are created on first access with this value
	n     int   // logical length of a lazily allocated array
	taint uint8 // 1: global of a package whose initialiser was not (fully) executed, never stored to; 2: provisional (own init running)
}

// at returns the i-th element cell of an array cell, materialising lazily allocated elements.
func (c *Cell) at(i int) *Cell {
	if i >= len(c.sub) && c.lazyZ != nil {
		if i >= c.n {
			panic(fmt.Sprintf("Cell.at: index %d beyond array length %d", i, c.n))
		}
		nl := 2 * len(c.sub)
		if nl < i+1 {
			nl = i + 1
		}
		if nl < 16 {
			nl = 16
		}
		if nl > c.n {
			nl = c.n
		}
		ns := make([]*Cell, nl)
		copy(ns, c.sub)
		c.sub = ns
	}
	s := c.sub[i]
	if s == nil {
		s = &Cell{v: c.lazyZ, epoch: c.epoch}
		c.sub[i] = s
	}
	return s
}

// length is the number of elements / fields of an aggregate cell.
func (c *Cell) length() int {
	if c.lazyZ != nil {
		return c.n
	}
	return len(c.sub)
}

// isAgg reports whether the cell holds a struct or array.
func (c *Cell) isAgg() bool { return c.sub != nil || c.lazyZ != nil }

type Ptr struct{ c *Cell }

type Slice struct {
	arr           *Cell
	off, len, cap int
}

type Str struct{ b []*sym.Term }

type Agg struct{ e []Value }

type Iface struct {
	t types.Type
	v Value
}

type Func struct {
	fn     *ssa.Function
	env    []Value
	native func(in *Interp, args []Value) Value
	name   string
}

type Tuple []Value

type MapObj struct {
	keys  []Value
	vals  []Value
	dead  []bool
	idx   map[string]int // concrete keys only
	nsym  int            // number of live entries with symbolic keys
	n     int            // live entries
	epoch int32
	saved *MapObj // copy for undo of init-epoch maps
	kt    types.Type
}

type ChanObj struct {
	buf    []Value
	cap    int
	closed bool
	epoch  int32
}

type RangeIter struct {
	m    *MapObj
	keys []Value
	pos  int
	s    *Str
}

func (s *Str) Len() int { return len(s.b) }

func (s *Str) Concrete() (string, bool) {
	bs := make([]byte, len(s.b))
	for i, t := range s.b {
		if !t.IsConst() {
			return "", false
		}
		bs[i] = byte(t.C)
	}
	return string(bs), true
}

func (in *Interp) mkStr(s string) *Str {
	b := make([]*sym.Term, len(s))
	for i := 0; i < len(s); i++ {
		b[i] = in.byteConst[s[i]]
	}
	return &Str{b}
}

// ---- type helpers ----

func under(t types.Type) types.Type {
	for {
		switch tt := t.(type) {
		case *types.Named:
			t = tt.Underlying()
		case *types.Alias:
			t = types.Unalias(tt)
		default:
			return t
		}
	}
}

// intInfo returns the bit width and signedness of an integer (or bool-free) basic type.
func intInfo(t types.Type) (w int, signed bool, ok bool) {
	b, isb := under(t).(*types.Basic)
	if !isb {
		return 0, false, false
	}
	switch b.Kind() {
	case types.Int8:
		return 8, true, true
	case types.Int16:
		return 16, true, true
	case types.Int32, types.UntypedRune:
		return 32, true, true
	case types.Int64, types.Int, types.UntypedInt:
		return 64, true, true
	case types.Uint8:
		return 8, false, true
	case types.Uint16:
		return 16, false, true
	case types.Uint32:
		return 32, false, true
	case types.Uint64, types.Uint, types.Uintptr:
		return 64, false, true
	}
	return 0, false, false
}

func isFloat(t types.Type) bool {
	b, ok := under(t).(*types.Basic)
	return ok && (b.Kind() == types.Float64 || b.Kind() == types.Float32 || b.Kind() == types.UntypedFloat)
}

func isString(t types.Type) bool {
	b, ok := under(t).(*types.Basic)
	return ok && (b.Kind() == types.String || b.Kind() == types.UntypedString)
}

func isBool(t types.Type) bool {
	b, ok := under(t).(*types.Basic)
	return ok && (b.Kind() == types.Bool || b.Kind() == types.UntypedBool)
}

func (in *Interp) zero(t types.Type) Value {
	switch tt := under(t).(type) {
	case *types.Basic:
		if w, _, ok := intInfo(tt); ok {
			return in.ctx.BVConst(0, w)
		}
		switch tt.Kind() {
		case types.Bool, types.UntypedBool:
			return in.ctx.False
		case types.Float64, types.Float32, types.UntypedFloat:
			return in.ctx.FPConst(0)
		case types.String, types.UntypedString:
			return in.emptyStr
		case types.UnsafePointer:
			return Ptr{}
		case types.UntypedNil:
			return Ptr{}
		case types.Invalid:
			return nil
		}
		panic(unmodelled{"zero value of basic type " + tt.String()})
	case *types.Pointer:
		return Ptr{}
	case *types.Slice:
		return Slice{}
	case *types.Map:
		return (*MapObj)(nil)
	case *types.Chan:
		return (*ChanObj)(nil)
	case *types.Signature:
		return (*Func)(nil)
	case *types.Interface:
		return Iface{}
	case *types.Struct:
		a := &Agg{e: make([]Value, tt.NumFields())}
		for i := range a.e {
			a.e[i] = in.zero(tt.Field(i).Type())
		}
		return a
	case *types.Array:
		n := int(tt.Len())
		a := &Agg{e: make([]Value, n)}
		if n > 0 {
			z := in.zero(tt.Elem())
			for i := range a.e {
				a.e[i] = in.copyVal(z)
			}
		}
		return a
	case *types.Tuple:
		tp := make(Tuple, tt.Len())
		for i := range tp {
			tp[i] = in.zero(tt.At(i).Type())
		}
		return tp
	}
	panic(unmodelled{"zero value of type " + t.String()})
}

// copyVal deep-copies aggregate values (value semantics); everything else is immutable or a reference.
func (in *Interp) copyVal(v Value) Value {
	if a, ok := v.(*Agg); ok {
		n := &Agg{e: make([]Value, len(a.e))}
		for i, x := range a.e {
			n.e[i] = in.copyVal(x)
		}
		return n
	}
	return v
}

// newCell allocates memory holding v (aggregates are exploded into sub-cells).
func (in *Interp) newCell(v Value) *Cell {
	c := &Cell{epoch: in.epoch}
	in.nCells++
	if a, ok := v.(*Agg); ok {
		c.sub = make([]*Cell, len(a.e))
		for i, x := range a.e {
			c.sub[i] = in.newCell(x)
		}
		return c
	}
	c.v = v
	return c
}

// allocType allocates zeroed memory for a variable of type t (large scalar arrays lazily).
func (in *Interp) allocType(t types.Type) *Cell {
	switch tt := under(t).(type) {
	case *types.Array:
		n := int(tt.Len())
		switch under(tt.Elem()).(type) {
		case *types.Array, *types.Struct:
			c := &Cell{epoch: in.epoch, sub: make([]*Cell, n)}
			for i := range c.sub {
				c.sub[i] = in.allocType(tt.Elem())
			}
			return c
		}
		return in.newArrayCell(n, in.zero(tt.Elem()))
	case *types.Struct:
		c := &Cell{epoch: in.epoch, sub: make([]*Cell, tt.NumFields())}
		for i := range c.sub {
			c.sub[i] = in.allocType(tt.Field(i).Type())
		}
		return c
	}
	return in.newCell(in.zero(t))
}

// newArrayCell allocates a backing array of n elements initialised to copies of z.
func (in *Interp) newArrayCell(n int, z Value) *Cell {
	if n > in.opts.MaxAlloc {
		panic(boundExceeded{fmt.Sprintf("allocation of %d elements exceeds MaxAlloc", n)})
	}
	if _, agg := z.(*Agg); !agg && n > 64 {
		return &Cell{epoch: in.epoch, lazyZ: z, n: n}
	}
	c := &Cell{epoch: in.epoch, sub: make([]*Cell, n)}
	in.nCells += n
	_, agg := z.(*Agg)
	if agg {
		for i := range c.sub {
			c.sub[i] = in.newCell(in.copyVal(z))
		}
		return c
	}
	slab := make([]Cell, n)
	for i := range c.sub {
		slab[i].v = z
		slab[i].epoch = in.epoch
		c.sub[i] = &slab[i]
	}
	return c
}

func (in *Interp) load(c *Cell) Value {
	if c.isAgg() {
		n := c.length()
		a := &Agg{e: make([]Value, n)}
		for i := 0; i < n; i++ {
			if i >= len(c.sub) || c.sub[i] == nil {
				a.e[i] = c.lazyZ
				continue
			}
			a.e[i] = in.load(c.sub[i])
		}
		return a
	}
	if c.taint == 1 {
		panic(unmodelled{"read of global " + in.globalNameOf(c) + " whose package initialiser was not executed"})
	}
	return c.v
}

func (in *Interp) globalNameOf(c *Cell) string {
	var has func(r *Cell) bool
	has = func(r *Cell) bool {
		if r == c {
			return true
		}
		for _, s := range r.sub {
			if s != nil && has(s) {
				return true
			}
		}
		return false
	}
	for g, r := range in.globals {
		if has(r) {
			return g.String()
		}
	}
	return "?"
}

func setTaint(c *Cell, from, to uint8) {
	if c.taint == from {
		c.taint = to
	}
	for _, s := range c.sub {
		if s != nil {
			setTaint(s, from, to)
		}
	}
}

func (in *Interp) store(c *Cell, v Value) {
	if c.isAgg() {
		a, ok := v.(*Agg)
		if !ok || len(a.e) != c.length() {
			panic(fmt.Sprintf("store: aggregate shape mismatch: cell has %d sub-cells, value is %T", c.length(), v))
		}
		for i := range a.e {
			in.store(c.at(i), a.e[i])
		}
		return
	}
	if _, ok := v.(*Agg); ok {
		// a leaf cell receiving an aggregate: happens for zero-length arrays / empty structs
		a := v.(*Agg)
		if len(a.e) == 0 {
			return
		}
		panic("store: aggregate into leaf cell")
	}
	if c.epoch == 0 && !in.initMode {
		in.undo = append(in.undo, undoRec{c, c.v, c.taint})
	}
	c.v = v
	c.taint = 0
}

type undoRec struct {
	c *Cell
	v Value
	t uint8
}

// ---- maps ----

func (in *Interp) newMap(kt types.Type) *MapObj {
	return &MapObj{idx: map[string]int{}, epoch: in.epoch, kt: kt}
}

func (in *Interp) touchMap(m *MapObj) {
	if m.epoch == 0 && !in.initMode && m.saved == nil {
		cp := &MapObj{keys: append([]Value(nil), m.keys...), vals: append([]Value(nil), m.vals...), dead: append([]bool(nil), m.dead...),
			idx: map[string]int{}, nsym: m.nsym, n: m.n}
		for k, v := range m.idx {
			cp.idx[k] = v
		}
		m.saved = cp
		in.undoMaps = append(in.undoMaps, m)
	}
}

// keyString gives a canonical string for a fully concrete key.
func keyString(v Value) (string, bool) {
	switch x := v.(type) {
	case *sym.Term:
		if !x.IsConst() {
			return "", false
		}
		return fmt.Sprintf("t%d:%x", x.S.W, x.C), true
	case *Str:
		s, ok := x.Concrete()
		if !ok {
			return "", false
		}
		return "s" + fmt.Sprint(len(s)) + ":" + s, true
	case Ptr:
		return fmt.Sprintf("p%p", x.c), true
	case Iface:
		if x.t == nil {
			return "inil", true
		}
		s, ok := keyString(x.v)
		if !ok {
			return "", false
		}
		return "i" + x.t.String() + "/" + s, true
	case *Agg:
		var sb strings.Builder
		sb.WriteString("a(")
		for _, e := range x.e {
			s, ok := keyString(e)
			if !ok {
				return "", false
			}
			sb.WriteString(s)
			sb.WriteByte(',')
		}
		sb.WriteByte(')')
		return sb.String(), true
	case *ChanObj:
		return fmt.Sprintf("c%p", x), true
	}
	panic(unmodelled{fmt.Sprintf("map key of kind %T", v)})
}

// mapFind returns the entry index holding key k, or -1. Symbolic comparisons fork.
func (in *Interp) mapFind(m *MapObj, k Value) int {
	if m == nil {
		return -1
	}
	ks, conc := keyString(k)
	if conc && m.nsym == 0 {
		if i, ok := m.idx[ks]; ok {
			return i
		}
		return -1
	}
	if conc {
		if i, ok := m.idx[ks]; ok {
			return i
		}
	}
	for i := range m.keys {
		if m.dead[i] {
			continue
		}
		eq := in.valuesEqual(m.keys[i], k)
		if eq.IsConst() {
			if eq.C == 1 {
				return i
			}
			continue
		}
		if in.branch(eq) {
			return i
		}
	}
	return -1
}

func (in *Interp) mapGet(m *MapObj, k Value) (Value, bool) {
	i := in.mapFind(m, k)
	if i < 0 {
		return nil, false
	}
	return m.vals[i], true
}

func (in *Interp) mapSet(m *MapObj, k, v Value) {
	i := in.mapFind(m, k)
	in.touchMap(m)
	if i >= 0 {
		m.vals[i] = v
		return
	}
	m.keys = append(m.keys, k)
	m.vals = append(m.vals, v)
	m.dead = append(m.dead, false)
	m.n++
	if ks, conc := keyString(k); conc {
		m.idx[ks] = len(m.keys) - 1
	} else {
		m.nsym++
	}
}

func (in *Interp) mapDelete(m *MapObj, k Value) {
	i := in.mapFind(m, k)
	if i < 0 {
		return
	}
	in.touchMap(m)
	m.dead[i] = true
	m.n--
	if ks, conc := keyString(m.keys[i]); conc {
		delete(m.idx, ks)
	} else {
		m.nsym--
	}
}

// ---- equality ----

// valuesEqual builds the boolean term for Go's == on two values of the same type.
func (in *Interp) valuesEqual(a, b Value) *sym.Term {
	c := in.ctx
	switch x := a.(type) {
	case *sym.Term:
		y, ok := b.(*sym.Term)
		if !ok {
			return c.False
		}
		if x.S != y.S {
			return c.False
		}
		return c.Eq(x, y)
	case *Str:
		y, ok := b.(*Str)
		if !ok {
			return c.False
		}
		return in.strEq(x.b, y.b)
	case Ptr:
		y, ok := b.(Ptr)
		return c.BoolConst(ok && x.c == y.c)
	case Iface:
		y, ok := b.(Iface)
		if !ok {
			return c.False
		}
		if x.t == nil || y.t == nil {
			return c.BoolConst(x.t == nil && y.t == nil)
		}
		if !types.Identical(x.t, y.t) {
			return c.False
		}
		if !types.Comparable(x.t) {
			panic(goPanicSignal{in.runtimePanic("runtime error: comparing uncomparable type " + x.t.String())})
		}
		return in.valuesEqual(x.v, y.v)
	case *Agg:
		y, ok := b.(*Agg)
		if !ok || len(x.e) != len(y.e) {
			return c.False
		}
		r := c.True
		for i := range x.e {
			r = c.And(r, in.valuesEqual(x.e[i], y.e[i]))
			if r.IsFalse() {
				return r
			}
		}
		return r
	case *MapObj:
		y, _ := b.(*MapObj)
		return c.BoolConst(x == y)
	case *ChanObj:
		y, _ := b.(*ChanObj)
		return c.BoolConst(x == y)
	case *Func:
		y, _ := b.(*Func)
		return c.BoolConst(x == y)
	case Slice:
		y, ok := b.(Slice)
		// only comparison with nil is legal
		return c.BoolConst(ok && x.arr == nil && y.arr == nil)
	case nil:
		return c.BoolConst(b == nil)
	}
	panic(unmodelled{fmt.Sprintf("equality on %T", a)})
}

func (in *Interp) strEq(a, b []*sym.Term) *sym.Term {
	c := in.ctx
	if len(a) != len(b) {
		return c.False
	}
	r := make([]*sym.Term, 0, len(a))
	for i := range a {
		e := c.Eq(a[i], b[i])
		if e.IsFalse() {
			return e
		}
		r = append(r, e)
	}
	return c.And(r...)
}

// strLess: lexicographic a < b.
func (in *Interp) strLess(a, b []*sym.Term) *sym.Term {
	c := in.ctx
	n := len(a)
	if len(b) < n {
		n = len(b)
	}
	// from the end: res = (len(a) < len(b)) for equal prefix
	res := c.BoolConst(len(a) < len(b))
	for i := n - 1; i >= 0; i-- {
		res = c.Ite(c.ULT(a[i], b[i]), c.True, c.Ite(c.Eq(a[i], b[i]), res, c.False))
	}
	return res
}

// strCompare returns -1/0/1 as a 64-bit term.
func (in *Interp) strCompare(a, b []*sym.Term) *sym.Term {
	c := in.ctx
	lt := in.strLess(a, b)
	eq := in.strEq(a, b)
	return c.Ite(lt, c.BVConst(^uint64(0), 64), c.Ite(eq, c.BVConst(0, 64), c.BVConst(1, 64)))
}

func (in *Interp) sliceBytes(s Slice) []*sym.Term {
	out := make([]*sym.Term, s.len)
	for i := 0; i < s.len; i++ {
		out[i] = s.arr.at(s.off+i).v.(*sym.Term)
	}
	return out
}

func (in *Interp) bytesToSlice(b []*sym.Term) Slice {
	arr := &Cell{epoch: in.epoch, sub: make([]*Cell, len(b))}
	for i, t := range b {
		arr.sub[i] = &Cell{v: t, epoch: in.epoch}
	}
	return Slice{arr: arr, len: len(b), cap: len(b)}
}
