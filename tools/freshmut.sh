#!/bin/bash
# freshmut.sh <id> [check args...] : apply /tmp/mut_<id>/DEMO/patch.diff (or seeded/<dir>/patch.diff given as PATCH=) onto a fresh worktree of /repo HEAD and run the check against it
id=$1; shift
patch=${PATCH:-/tmp/mut_$id/DEMO/patch.diff}
wt=/tmp/mutf_$id
git -C /repo worktree remove --force $wt 2>/dev/null
git -C /repo worktree add -q --detach $wt HEAD || exit 9
(cd $wt && git apply $patch) || { echo "patch does not apply"; git -C /repo worktree remove --force $wt; exit 8; }
(cd /verif && VERIF_REPO=$wt timeout 3000 ./check $id "$@")
rc=$?
git -C /repo worktree remove --force $wt
echo "rc=$rc"
