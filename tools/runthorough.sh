#!/bin/bash
# runthorough.sh <cap seconds> <ids...>: runs thorough checks sequentially, logs /tmp/thorough_<id>.log, appends to /tmp/thorough.out
cd /verif
cap=$1; shift
for id in "$@"; do
  s=$(date +%s)
  GOSYM_JOBS=1 timeout $cap ./check $id --tier thorough > /tmp/thorough_$id.log 2>&1
  rc=$?
  e=$(date +%s)
  echo "$id rc=$rc wall=$((e-s))s $(grep "tier=thorough" /tmp/thorough_$id.log | cut -c1-220)" >> /tmp/thorough.out
done
