#!/bin/bash
# regress_seeded.sh [names...]: for every archived seeded change, apply its patch on a fresh worktree of /repo HEAD
# (outside /repo and /verif), run the property's quick check against it and expect exit 1 with a VIOLATION line.
# Writes /tmp/regress_seeded.out ; the worktree is removed after each run.
cd /verif
out=/tmp/regress_seeded.out
: > $out
names="$@"
[ -z "$names" ] && names=$(ls seeded)
for name in $names; do
  d=seeded/$name/
  id=$(python3 -c "import json;print(json.load(open('$d/meta.json'))['property'])")
  wt=/tmp/regr_$name
  git -C /repo worktree remove --force $wt 2>/dev/null
  git -C /repo worktree add -q --detach $wt HEAD || { echo "$name worktree-failed" >> $out; continue; }
  if ! (cd $wt && git apply /verif/$d/patch.diff); then
    echo "$name property=$id PATCH-DOES-NOT-APPLY" >> $out
    git -C /repo worktree remove --force $wt
    continue
  fi
  s=$(date +%s)
  VERIF_REPO=$wt timeout 2400 ./check $id > /tmp/regr_$name.log 2>&1
  rc=$?
  e=$(date +%s)
  nv=$(grep -c "^VIOLATION property=$id" /tmp/regr_$name.log)
  echo "$name property=$id rc=$rc violations_lines=$nv wall=$((e-s))s" >> $out
  git -C /repo worktree remove --force $wt
done
echo DONE >> $out
