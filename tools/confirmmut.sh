#!/bin/bash
# confirmmut.sh <id> <pkgdir> : run the demo with the change (must fail) and without (must pass), then the check against the worktree
id=$1; pkg=$2; wt=/tmp/mut_$id
export GOFLAGS=-mod=mod GOPROXY=off GOSUMDB=off GOTOOLCHAIN=local
cd $wt || exit 9
cp DEMO/zz_demo_*_test.go $pkg/ 2>/dev/null
echo "== base of worktree: $(git log --oneline -1)"
echo "== with change"
timeout 900 go test -modfile=/tmp/mutkit/repo.mod -count=1 -vet=off -run 'Demo' ./$pkg 2>&1 | tail -8
git diff > /tmp/confirm_$id.diff; git checkout -q -- .   # not git stash: the stash is shared by all worktrees
echo "== without change"
timeout 900 go test -modfile=/tmp/mutkit/repo.mod -count=1 -vet=off -run 'Demo' ./$pkg 2>&1 | tail -4
git apply /tmp/confirm_$id.diff
git status --short | head
