#!/usr/bin/env python3
"""keepmut.py <name> <property> <worktree> <demo_pkg_dir> <detected:yes|no|after-strengthening> <needs...> -- archives a seeded change"""
import sys, os, shutil, json, subprocess, glob
name, prop, wt, pkg, detected = sys.argv[1:6]
needs = sys.argv[6]
ran = sys.argv[7] if len(sys.argv) > 7 else ""
d = '/verif/seeded/' + name
os.makedirs(d, exist_ok=True)
shutil.copy(os.path.join(wt, 'DEMO', 'patch.diff'), d)
for f in glob.glob(os.path.join(wt, 'DEMO', 'zz_demo_*_test.go')):
    shutil.copy(f, d)
if os.path.exists(os.path.join(wt, 'DEMO', 'NOTES.md')):
    shutil.copy(os.path.join(wt, 'DEMO', 'NOTES.md'), d)
meta = {"property": prop, "breaks": prop, "demo_package": pkg, "needs_to_manifest": needs,
        "confirmed": "demo test fails with the change and passes without it (run by me in the scratch worktree with -modfile=/tmp/mutkit/repo.mod); go build ./... succeeds with the change",
        "detected_by_check": detected, "what_i_ran": ran}
json.dump(meta, open(os.path.join(d, 'meta.json'), 'w'), indent=1)
print("kept", d)
