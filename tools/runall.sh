#!/bin/sh
# runs every registered quick check sequentially, prints one status line each (evidence is rewritten)
cd /verif
for id in $(python3 -c "import json;print(' '.join(c['property_id'] for c in json.load(open('/verif/MANIFEST.json'))['checks']))"); do
  start=$(date +%s)
  timeout 1500 ./check $id --tier quick > /tmp/runall_$id.log 2>&1
  rc=$?
  echo "$id exit=$rc $(( $(date +%s) - start ))s $(grep "^$id tier" /tmp/runall_$id.log | cut -c1-200)"
done
