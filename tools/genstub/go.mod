module genstub

go 1.23
