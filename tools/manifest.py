#!/usr/bin/env python3
"""Regenerates the checks / not_applicable parts of MANIFEST.json from props.json + checks_meta.json."""
import json
man=json.load(open('/verif/MANIFEST.json'))
meta=json.load(open('/verif/checks_meta.json'))
checks=[]
for pid in sorted(meta['claimed']):
    c=meta['claimed'][pid]
    checks.append({
      "property_id":pid,
      "quick_cmd":"./check %s --tier quick"%pid,
      "thorough_cmd":"./check %s --tier thorough"%pid,
      "evidence_file":"/verif/evidence/%s.json"%pid,
      "replay_cmd_template":"./check %s --replay {path}"%pid,
      "engine":"gosym",
      "level_claimed":{"category":"other","text":c["text"],"design_ref":c["design_ref"]},
      "level_note":c["note"],
      "technique":c["technique"],
    })
man["checks"]=checks
na=dict(meta["not_applicable"])
for l in open('/verif/properties.jsonl'):
    pid=json.loads(l)["id"]
    if pid not in meta["claimed"] and pid not in na:
        na[pid]="claimed in DESIGN.md but its check is not built/registered yet at this commit (work in progress, see DESIGN.md section 0)"
man["not_applicable"]=[{"property_id":k,"reason":v} for k,v in sorted(na.items())]
man["engines"][0]["serves_properties"]=sorted(meta['claimed'])
json.dump(man,open('/verif/MANIFEST.json','w'),indent=1)
print("checks:",len(checks),"n/a:",len(man["not_applicable"]))
