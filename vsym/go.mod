module vsym

go 1.13
