// Package vsym is the harness API of the gosym symbolic executor.
//
// Under gosym every function here is intercepted: U8..Bytes create symbolic
// inputs, Assume/Assert talk to the SMT solver, Choose forks structurally.
// Compiled natively the same calls read their values, in call order, from the
// replay file named by $VSYM_REPLAY (a JSON list of {name,kind,width,val}),
// so a harness is its own replay test.
package vsym

import (
	"encoding/json"
	"fmt"
	"io/ioutil"
	"math"
	"os"
	"strings"
)

type input struct {
	Name  string `json:"name"`
	Kind  string `json:"kind"`
	Width int    `json:"width"`
	Val   uint64 `json:"val"`
}

var (
	inputs   []input
	pos      int
	seq      int
	loaded   bool
	Observed []string
	Reached  []string
)

// Reset re-reads the replay file and clears the logs (called by the replay test).
func Reset() {
	inputs, pos, seq, loaded = nil, 0, 0, false
	Observed, Reached = nil, nil
}

func load() {
	if loaded {
		return
	}
	loaded = true
	p := os.Getenv("VSYM_REPLAY")
	if p == "" {
		return
	}
	b, err := ioutil.ReadFile(p)
	if err != nil {
		panic("vsym: cannot read replay file: " + err.Error())
	}
	var doc struct {
		Inputs []input `json:"inputs"`
	}
	if err := json.Unmarshal(b, &doc); err != nil {
		panic("vsym: bad replay file: " + err.Error())
	}
	inputs = doc.Inputs
}

func next(name, kind string) uint64 {
	load()
	full := fmt.Sprintf("%s#%d", name, seq)
	seq++
	if pos >= len(inputs) {
		pos++
		return 0
	}
	in := inputs[pos]
	pos++
	if in.Name != full {
		panic(fmt.Sprintf("VSYM-REPLAY-MISMATCH: harness asked for %q, replay file has %q", full, in.Name))
	}
	return in.Val
}

func U8(name string) uint8    { return uint8(next(name, "u8")) }
func U16(name string) uint16  { return uint16(next(name, "u16")) }
func U32(name string) uint32  { return uint32(next(name, "u32")) }
func U64(name string) uint64  { return next(name, "u64") }
func I32(name string) int32   { return int32(next(name, "i32")) }
func I64(name string) int64   { return int64(next(name, "i64")) }
func Int(name string) int     { return int(int64(next(name, "int"))) }
func Bool(name string) bool   { return next(name, "bool")&1 == 1 }
func F64(name string) float64 { return math.Float64frombits(next(name, "f64")) }

func Bytes(name string, n int) []byte {
	b := make([]byte, n)
	for i := range b {
		b[i] = uint8(next(fmt.Sprintf("%s[%d]", name, i), "u8"))
	}
	return b
}

func String(name string, n int) string { return string(Bytes(name, n)) }

// Choose returns a structural choice in [0,k): gosym explores every value as a separate shape.
func Choose(name string, k int) int {
	return int(next(name, "choose") % uint64(k))
}

// Thorough reports whether the thorough tier is running (larger shapes).
func Thorough() bool { return os.Getenv("VERIF_TIER") == "thorough" }

func Assume(c bool) {
	if !c {
		panic("VSYM-ASSUME-FAIL")
	}
}

// AssumeModel restricts the value an uninterpreted function (crc, hash) takes in the symbolic run.
// Natively the real function decides, so the call is a no-op there.
func AssumeModel(c bool) {}

func Assert(c bool, msg string) {
	if !c {
		panic("VSYM-ASSERT-FAIL: " + msg)
	}
}

func Reach(tag string) { Reached = append(Reached, tag) }
func Tag(tag string)   {}

// MapOrder(true) makes gosym iterate maps in reverse insertion order until MapOrder(false): used to show
// that a result does not depend on Go's unspecified map iteration order. Natively Go's own random order applies.
func MapOrder(reverse bool) {}

// FsyncCalls: number of fileutil.Fdatasync/Fsync calls so far on this path (gosym's file model); -1 natively.
func FsyncCalls() int { return -1 }

// SymbolicOnly declares that the harness depends on environment models that do not exist natively (an opaque
// *os.File, a captured proposal): counterexamples are reported from the symbolic run and not replayed.
// It returns true under gosym and false natively.
func SymbolicOnly() bool { return false }

// NoteBool records a fact that only the symbolic run can compute (e.g. "the leader-side validator proposed the
// command", observed through a model of the proposal path). Under gosym it returns v and stores it in the
// replay file; natively v is ignored and the stored value is returned.
func NoteBool(name string, v bool) bool { return next(name, "note")&1 == 1 }

// Symbolic reports whether the harness runs under gosym in symbolic mode.
func Symbolic() bool { return false }

func Implies(a, b bool) bool { return !a || b }
func And(a, b bool) bool     { return a && b }
func Or(a, b bool) bool      { return a || b }

func IteU64(c bool, a, b uint64) uint64 {
	if c {
		return a
	}
	return b
}
func IteI64(c bool, a, b int64) int64 {
	if c {
		return a
	}
	return b
}
func IteInt(c bool, a, b int) int {
	if c {
		return a
	}
	return b
}
func IteU8(c bool, a, b uint8) uint8 {
	if c {
		return a
	}
	return b
}
func IteBool(c bool, a, b bool) bool {
	if c {
		return a
	}
	return b
}

func BytesEq(a, b []byte) bool   { return string(a) == string(b) }
func BytesLess(a, b []byte) bool { return string(a) < string(b) }

// Observe records values for the translator-validation comparison (concrete mode vs native).
func Observe(tag string, vals ...interface{}) {
	var parts []string
	for _, v := range vals {
		parts = append(parts, fmtObserved(v))
	}
	Observed = append(Observed, tag+"="+strings.Join(parts, ","))
}

func fmtObserved(v interface{}) string {
	switch x := v.(type) {
	case nil:
		return "nil"
	case error:
		return "err"
	case bool:
		if x {
			return "true"
		}
		return "false"
	case int:
		return fmt.Sprint(x)
	case int8:
		return fmt.Sprint(x)
	case int16:
		return fmt.Sprint(x)
	case int32:
		return fmt.Sprint(x)
	case int64:
		return fmt.Sprint(x)
	case uint:
		return fmt.Sprint(x)
	case uint8:
		return fmt.Sprint(x)
	case uint16:
		return fmt.Sprint(x)
	case uint32:
		return fmt.Sprint(x)
	case uint64:
		return fmt.Sprint(x)
	case float64:
		return fmt.Sprintf("f%016x", math.Float64bits(x))
	case string:
		return fmt.Sprintf("x%x", x)
	case []byte:
		return fmt.Sprintf("x%x", x)
	}
	return fmt.Sprintf("<%T>", v)
}

// FreezeClock makes the environment clock (time.Now) stand still at the given unix-nanosecond instant for the
// rest of the path. For harnesses where wall-clock time only feeds slow-logs and latency metrics: each such
// comparison would otherwise double the number of paths. Natively a no-op (the real clock runs).
func FreezeClock(unixNano int64) {}

// InlineGoroutines makes every later go statement of the path run its goroutine to completion at the spawn
// point (one legal schedule of a fork/join computation; a goroutine that would block is reported as
// unmodelled, never silently skipped). Natively a no-op: the real scheduler runs.
func InlineGoroutines() {}
