module github.com/youzan/gorocksdb

go 1.13
