//go:build verif

package ioutil

import "vsym"

// C05 (W2b): PageWriter leaves pure buffering only when 128 KiB are pending. It is entered here with a
// pre-state just below the watermark and a symbolic page offset: the slack / partial-page / flush
// arithmetic must hand every byte to the underlying writer exactly once, in order, and only write
// page-aligned chunks before Flush.

type c05Sink struct {
	n      int   // bytes received
	sum    []byte // the last few bytes received (tail window)
	chunks []int
}

func (s *c05Sink) Write(p []byte) (int, error) {
	s.n += len(p)
	s.chunks = append(s.chunks, len(p))
	if len(p) > 64 {
		p = p[len(p)-64:]
	}
	for _, b := range p {
		if len(s.sum) < 64 {
			s.sum = append(s.sum, b)
		} else {
			copy(s.sum, s.sum[1:])
			s.sum[63] = b
		}
	}
	return len(p), nil
}

func Verif_C05_PageWriter_Watermark() {
	sink := &c05Sink{}
	pageBytes := 4096
	pw := NewPageWriter(sink, pageBytes, 0)
	// pre-state: `below` bytes under the watermark already buffered, page offset symbolic
	below := vsym.Choose("below", 3) * 8 // 0, 8, 16 bytes of room
	pw.bufferedBytes = pw.bufWatermarkBytes - below
	po := vsym.Int("pageOffset")
	vsym.Assume(po >= 0 && po < pageBytes)
	// keep the slack arithmetic to a handful of concrete outcomes: offset is 8-byte aligned near a page end
	vsym.Assume(po%8 == 0)
	vsym.Assume(po >= pageBytes-32 || po <= 16)
	pw.pageOffset = po
	pending := pw.bufferedBytes
	// two writes of 8 and 24 symbolic bytes (a frame header and a padded record)
	w1 := vsym.Bytes("w1", 8)
	w2 := vsym.Bytes("w2", 24)
	n1, err := pw.Write(w1)
	vsym.Assert(err == nil && n1 == 8, "first write accepted completely")
	n2, err := pw.Write(w2)
	vsym.Assert(err == nil && n2 == 24, "second write accepted completely")
	// every chunk handed down before Flush ends on a page boundary
	off := po
	for _, c := range sink.chunks {
		off += c
		vsym.Assert(off%pageBytes == 0, "chunks written before Flush end page-aligned")
	}
	vsym.Assert(pw.Flush() == nil, "flush")
	vsym.Assert(sink.n == pending+32, "every pending and new byte reached the writer exactly once")
	// the last 32 bytes received are w1 then w2, in order
	tail := sink.sum[len(sink.sum)-32:]
	vsym.Assert(vsym.BytesEq(tail[:8], w1), "first write arrives unchanged")
	vsym.Assert(vsym.BytesEq(tail[8:], w2), "second write arrives unchanged and after the first")
	vsym.Assert(pw.bufferedBytes == 0, "nothing left buffered after Flush")
	vsym.Reach("end")
}
