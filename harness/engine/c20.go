//go:build verif

package engine

import (
	"bytes"
	"io/ioutil"
	"os"

	"github.com/cockroachdb/pebble"
	"github.com/youzan/ZanRedisDB/common"
	"vsym"
)

// C20 - all engines implement one key-value contract (component level).
// E1: the shared range/limit iterator wrapper against a sorted-list reference over a model cursor.
// E2: the pebble adapter (bounds computation, Seek->SeekGE, SeekForPrev->...) composed with the wrapper,
//     over a model of *pebble.Iterator with pebble's documented semantics (symbolic run) or the real
//     pebble engine (native replay).

// ---- sorted symbolic key population ----

func c20Keys() [][]byte {
	n := vsym.Choose("nkeys", 3) // 0..2 keys (quick), 0..3 (thorough)
	if vsym.Thorough() {
		n = vsym.Choose("nkeys", 4)
	}
	var keys [][]byte
	for i := 0; i < n; i++ {
		kl := 1 // (keys of 1..2 bytes in the thorough tier did not finish within 25 minutes; E5 has 2-byte keys)
		k := vsym.Bytes("key", kl)
		if i > 0 {
			vsym.Assume(vsym.BytesLess(keys[i-1], k)) // strictly increasing
		}
		keys = append(keys, k)
	}
	return keys
}

func c20Bound(name string) []byte {
	switch vsym.Choose(name+".kind", 3) {
	case 0:
		return nil
	case 1:
		return vsym.Bytes(name, 1)
	}
	return vsym.Bytes(name, 2)
}

// ---- model cursor with RocksDB iterator semantics (the contract engine.Iterator documents) ----

type c20Cursor struct {
	keys  [][]byte
	pos   int // -1 or len = invalid
	lower []byte
	upper []byte // exclusive
}

func (c *c20Cursor) inBounds(i int) bool {
	if i < 0 || i >= len(c.keys) {
		return false
	}
	if c.lower != nil && bytes.Compare(c.keys[i], c.lower) < 0 {
		return false
	}
	if c.upper != nil && bytes.Compare(c.keys[i], c.upper) >= 0 {
		return false
	}
	return true
}
func (c *c20Cursor) Valid() bool { return c.inBounds(c.pos) }
func (c *c20Cursor) Next() {
	if c.pos < len(c.keys) {
		c.pos++
	}
}
func (c *c20Cursor) Prev() {
	if c.pos >= 0 {
		c.pos--
	}
}

// seekGE: first key >= target (and >= lower)
func (c *c20Cursor) seekGE(t []byte) {
	c.pos = len(c.keys)
	for i := range c.keys {
		if bytes.Compare(c.keys[i], t) >= 0 && (c.lower == nil || bytes.Compare(c.keys[i], c.lower) >= 0) {
			c.pos = i
			return
		}
	}
}

// seekLE: last key <= target (and < upper)
func (c *c20Cursor) seekLE(t []byte) {
	c.pos = -1
	for i := len(c.keys) - 1; i >= 0; i-- {
		if bytes.Compare(c.keys[i], t) <= 0 && (c.upper == nil || bytes.Compare(c.keys[i], c.upper) < 0) {
			c.pos = i
			return
		}
	}
}

// seekLT: last key < target (and < upper)
func (c *c20Cursor) seekLT(t []byte) {
	c.pos = -1
	for i := len(c.keys) - 1; i >= 0; i-- {
		if bytes.Compare(c.keys[i], t) < 0 && (c.upper == nil || bytes.Compare(c.keys[i], c.upper) < 0) {
			c.pos = i
			return
		}
	}
}
func (c *c20Cursor) first() {
	c.pos = len(c.keys)
	for i := range c.keys {
		if c.lower == nil || bytes.Compare(c.keys[i], c.lower) >= 0 {
			c.pos = i
			return
		}
	}
}
func (c *c20Cursor) last() {
	c.pos = -1
	for i := len(c.keys) - 1; i >= 0; i-- {
		if c.upper == nil || bytes.Compare(c.keys[i], c.upper) < 0 {
			c.pos = i
			return
		}
	}
}

// c20ModelIter is the model cursor as an engine.Iterator (what every engine's raw iterator must behave like).
type c20ModelIter struct{ c20Cursor }

func (m *c20ModelIter) Seek(k []byte)        { m.seekGE(k) }
func (m *c20ModelIter) SeekForPrev(k []byte) { m.seekLE(k) }
func (m *c20ModelIter) SeekToFirst()         { m.first() }
func (m *c20ModelIter) SeekToLast()          { m.last() }
func (m *c20ModelIter) Close()               {}
func (m *c20ModelIter) RefKey() []byte       { return m.keys[m.pos] }
func (m *c20ModelIter) Key() []byte          { return append([]byte(nil), m.keys[m.pos]...) }
func (m *c20ModelIter) RefValue() []byte     { return nil }
func (m *c20ModelIter) Value() []byte        { return nil }
func (m *c20ModelIter) NoTimestamp(vt byte)  {}

// c20Getter hands out the contract cursor the way every engine documents it: created from the options with
// an inclusive lower bound and an exclusive upper bound (Max itself included for right-closed ranges).
type c20Getter struct{ keys [][]byte }

func (g *c20Getter) GetIterator(o IteratorOpts) (Iterator, error) {
	m := &c20ModelIter{c20Cursor{keys: g.keys, pos: -1}}
	m.lower = o.Min
	if o.Max != nil {
		m.upper = append([]byte(nil), o.Max...)
		if o.Type&common.RangeROpen == 0 {
			m.upper = append(m.upper, 0)
		}
	}
	return m, nil
}

// ---- reference: filter by range, order, drop offset, take count ----

func c20Reference(keys [][]byte, o IteratorOpts) [][]byte {
	if o.Offset < 0 {
		return nil
	}
	var in [][]byte
	for _, k := range keys {
		if o.Min != nil {
			c := bytes.Compare(k, o.Min)
			if c < 0 || (c == 0 && o.Type&common.RangeLOpen > 0) {
				continue
			}
		}
		if o.Max != nil {
			c := bytes.Compare(k, o.Max)
			if c > 0 || (c == 0 && o.Type&common.RangeROpen > 0) {
				continue
			}
		}
		in = append(in, k)
	}
	if o.Reverse {
		for i, j := 0, len(in)-1; i < j; i, j = i+1, j-1 {
			in[i], in[j] = in[j], in[i]
		}
	}
	if o.Offset >= len(in) {
		return nil
	}
	in = in[o.Offset:]
	if o.Count >= 0 && o.Count < len(in) {
		in = in[:o.Count]
	}
	return in
}

func c20Opts() IteratorOpts {
	var o IteratorOpts
	o.Min = c20Bound("min")
	o.Max = c20Bound("max")
	types := []uint8{common.RangeClose, common.RangeLOpen, common.RangeROpen, common.RangeOpen}
	o.Type = types[vsym.Choose("rangetype", 4)]
	o.Reverse = vsym.Choose("reverse", 2) == 1
	o.Offset = vsym.Int("offset")
	vsym.Assume(o.Offset >= -1 && o.Offset <= 3)
	o.Count = vsym.Int("count")
	vsym.Assume(o.Count >= -1 && o.Count <= 3)
	return o
}

func c20Compare(it *RangeLimitedIterator, want [][]byte, what string) {
	i := 0
	for ; it.Valid(); it.Next() {
		vsym.Assert(i < len(want), what+": iterator yields no more keys than the reference")
		if i >= len(want) {
			break
		}
		k := it.Key()
		vsym.Assert(len(k) == len(want[i]) && vsym.BytesEq(k, want[i]), what+": iterator yields the reference key at each position")
		i++
		if i > 8 {
			break
		}
	}
	vsym.Assert(i == len(want), what+": iterator yields as many keys as the reference")
}

// E1: shared wrapper over the contract cursor.
func Verif_C20_E1_RangeLimitIterator() {
	keys := c20Keys()
	o := c20Opts()
	it, err := NewDBRangeLimitIteratorWithOpts(&c20Getter{keys}, o)
	vsym.Assert(err == nil, "iterator creation succeeds")
	c20Compare(it, c20Reference(keys, o), "wrapper")
	vsym.Reach("end")
}

// ---- E2: pebble adapter ----

// Model of *pebble.Iterator (symbolic run only): state is kept on the side, keyed by the iterator object.
var c20PebbleModel = map[*pebble.Iterator]*c20Cursor{}
var c20PebbleKeys [][]byte

func VerifModel_pebble_DB_NewIter(d *pebble.DB, o *pebble.IterOptions) *pebble.Iterator {
	it := &pebble.Iterator{}
	c := &c20Cursor{keys: c20PebbleKeys, pos: -1}
	if o != nil {
		c.lower, c.upper = o.LowerBound, o.UpperBound
	}
	c20PebbleModel[it] = c
	return it
}
func VerifModel_pebble_Iterator_SeekGE(it *pebble.Iterator, k []byte) bool {
	c := c20PebbleModel[it]
	c.seekGE(k)
	return c.Valid()
}
func VerifModel_pebble_Iterator_SeekLT(it *pebble.Iterator, k []byte) bool {
	c := c20PebbleModel[it]
	c.seekLT(k)
	return c.Valid()
}
func VerifModel_pebble_Iterator_First(it *pebble.Iterator) bool {
	c := c20PebbleModel[it]
	c.first()
	return c.Valid()
}
func VerifModel_pebble_Iterator_Last(it *pebble.Iterator) bool {
	c := c20PebbleModel[it]
	c.last()
	return c.Valid()
}
func VerifModel_pebble_Iterator_Next(it *pebble.Iterator) bool {
	c := c20PebbleModel[it]
	c.Next()
	return c.Valid()
}
func VerifModel_pebble_Iterator_Prev(it *pebble.Iterator) bool {
	c := c20PebbleModel[it]
	c.Prev()
	return c.Valid()
}
func VerifModel_pebble_Iterator_Valid(it *pebble.Iterator) bool { return c20PebbleModel[it].Valid() }
func VerifModel_pebble_Iterator_Error(it *pebble.Iterator) error { return nil }
func VerifModel_pebble_Iterator_Close(it *pebble.Iterator) error { return nil }
func VerifModel_pebble_Iterator_Key(it *pebble.Iterator) []byte {
	c := c20PebbleModel[it]
	return c.keys[c.pos]
}
func VerifModel_pebble_Iterator_Value(it *pebble.Iterator) []byte { return nil }

func c20Pebble(keys [][]byte) (*PebbleEng, func()) {
	if vsym.Symbolic() {
		c20PebbleKeys = keys
		return &PebbleEng{eng: &pebble.DB{}, engOpened: 1}, func() {}
	}
	// native replay: the real engine
	dir, err := ioutil.TempDir("", "verif-c20-")
	if err != nil {
		panic(err)
	}
	cfg := NewRockConfig()
	cfg.DataDir = dir
	pe, err := NewPebbleEng(cfg)
	if err != nil {
		panic(err)
	}
	if err := pe.OpenEng(); err != nil {
		panic(err)
	}
	wb := pe.DefaultWriteBatch()
	for _, k := range keys {
		wb.Put(k, []byte("v"))
	}
	if err := pe.Write(wb); err != nil {
		panic(err)
	}
	return pe, func() { pe.CloseAll(); os.RemoveAll(dir) }
}

func Verif_C20_E2_PebbleAdapter() {
	keys := c20Keys()
	o := c20Opts()
	// the adapter appends to opts.Max: give it its own copy with spare capacity like callers do
	if o.Max != nil {
		o.Max = append(make([]byte, 0, len(o.Max)+1), o.Max...)
	}
	want := c20Reference(keys, o)
	pe, done := c20Pebble(keys)
	defer done()
	it, err := NewDBRangeLimitIteratorWithOpts(pe, o)
	vsym.Assert(err == nil, "iterator creation succeeds")
	c20Compare(it, want, "pebble")
	it.Close()
	vsym.Reach("end")
}


// ---- E2b: the in-memory engine's adapter. Its raw cursor (btree / radix / skiplist) is an unbounded
// contract cursor; whatever bounding the contract needs has to come from the adapter and the wrapper. ----

type c20MemModel struct{ c20Cursor }

func (m *c20MemModel) Seek(k []byte)        { m.seekGE(k) }
func (m *c20MemModel) SeekForPrev(k []byte) { m.seekLE(k) }
func (m *c20MemModel) First()               { m.first() }
func (m *c20MemModel) Last()                { m.last() }
func (m *c20MemModel) Close()               {}
func (m *c20MemModel) Key() []byte          { return m.keys[m.pos] }
func (m *c20MemModel) Value() []byte        { return nil }

type c20MemGetter struct {
	keys [][]byte
	real *memEng
}

func (g *c20MemGetter) GetIterator(o IteratorOpts) (Iterator, error) {
	if g.real != nil {
		return g.real.GetIterator(o)
	}
	// the adapter around the tree cursor is the real one (newMemIterator computes its bounds);
	// the tree cursor it wraps is then replaced by the contract model
	useMemType = memTypeBtree
	it, err := newMemIterator(&memEng{engOpened: 1, eng: &btree{}}, o)
	if err != nil {
		return nil, err
	}
	it.memit = &c20MemModel{c20Cursor{keys: g.keys, pos: -1}}
	return it, nil
}

func Verif_C20_E2_MemAdapter() {
	keys := c20Keys()
	o := c20Opts()
	if o.Max != nil {
		o.Max = append(make([]byte, 0, len(o.Max)+1), o.Max...)
	}
	want := c20Reference(keys, o)
	g := &c20MemGetter{keys: keys}
	if !vsym.Symbolic() {
		dir, err := ioutil.TempDir("", "verif-c20m-")
		if err != nil {
			panic(err)
		}
		defer os.RemoveAll(dir)
		cfg := NewRockConfig()
		cfg.DataDir = dir
		me, err := NewMemEng(cfg)
		if err != nil {
			panic(err)
		}
		if err := me.OpenEng(); err != nil {
			panic(err)
		}
		defer me.CloseAll()
		wb := me.DefaultWriteBatch()
		for _, k := range keys {
			wb.Put(k, []byte("v"))
		}
		if err := me.Write(wb); err != nil {
			panic(err)
		}
		g.real = me
	}
	it, err := NewDBRangeLimitIteratorWithOpts(g, o)
	vsym.Assert(err == nil, "iterator creation succeeds")
	c20Compare(it, want, "mem")
	it.Close()
	vsym.Reach("end")
}

// ---- E4: write batches of the in-memory engine (default radix backend, and btree) against a reference:
// put / delete / delete-range / counter merge applied atomically and in order on Commit; a cleared batch
// leaves nothing behind, also when the batch object is reused. The engine's own data structures
// (engine/radixdb + go-immutable-radix, engine/btree.go) are executed from source. ----

type c20Ref struct{ k, v [][]byte }

func (r *c20Ref) find(k []byte) int {
	for i := range r.k {
		if len(r.k[i]) == len(k) && bytes.Equal(r.k[i], k) {
			return i
		}
	}
	return -1
}
func (r *c20Ref) put(k, v []byte) {
	if i := r.find(k); i >= 0 {
		r.v[i] = v
		return
	}
	r.k = append(r.k, k)
	r.v = append(r.v, v)
}
func (r *c20Ref) del(k []byte) {
	if i := r.find(k); i >= 0 {
		r.k = append(r.k[:i], r.k[i+1:]...)
		r.v = append(r.v[:i], r.v[i+1:]...)
	}
}
func (r *c20Ref) get(k []byte) []byte {
	if i := r.find(k); i >= 0 {
		return r.v[i]
	}
	return nil
}
func (r *c20Ref) clone() *c20Ref {
	return &c20Ref{append([][]byte{}, r.k...), append([][]byte{}, r.v...)}
}

func c20U64(v uint64) []byte {
	b := make([]byte, 8)
	for i := 0; i < 8; i++ {
		b[i] = byte(v >> (8 * uint(i)))
	}
	return b
}

func Verif_C20_E4_MemWriteBatch() {
	// the default backend; engine/btree.go uses unsafe pointer casts between node layouts and is outside the interpreter
	useMemType = memTypeRadix
	me := &memEng{cfg: &RockEngConfig{}, engOpened: 1}
	r, err := NewRadix()
	vsym.Assert(err == nil, "radix")
	me.radixMemI = r
	keys := [][]byte{vsym.Bytes("ka", 1), vsym.Bytes("kb", 1)}
	vsym.Assume(keys[0][0] < keys[1][0])
	committed := &c20Ref{}
	wbI, err := newMemWriteBatch(me)
	vsym.Assert(err == nil, "batch")
	var wb WriteBatch = wbI
	// optionally the first key already holds a committed counter value
	if vsym.Choose("precommitted", 2) == 1 {
		pv := c20U64(vsym.U64("preval") % 16)
		wb.Put(keys[0], pv)
		vsym.Assert(wb.Commit() == nil, "pre commit")
		committed.put(keys[0], pv)
	}
	pending := committed.clone()
	nops := 3
	if vsym.Thorough() {
		nops = 4
	}
	for i := 0; i < nops; i++ {
		k := keys[vsym.Choose("key", 2)]
		switch vsym.Choose("op", 6) {
		case 0:
			v := c20U64(vsym.U64("putval") % 16)
			wb.Put(k, v)
			pending.put(k, v)
		case 1:
			wb.Delete(k)
			pending.del(k)
		case 2:
			d := vsym.U64("mergeval") % 16
			wb.Merge(k, c20U64(d))
			var old uint64
			if ov := pending.get(k); len(ov) == 8 {
				for j := 0; j < 8; j++ {
					old |= uint64(ov[j]) << (8 * uint(j))
				}
			}
			pending.put(k, c20U64(old+d))
		case 3:
			wb.DeleteRange(keys[0], keys[1]) // [ka, kb)
			pending.del(keys[0])
		case 4:
			wb.Clear()
			pending = committed.clone()
		case 5:
			vsym.Assert(wb.Commit() == nil, "commit")
			committed = pending
			pending = committed.clone()
		}
		if i == nops-1 {
			// whatever is still pending is committed at the end
			vsym.Assert(wb.Commit() == nil, "final commit")
			committed = pending
		}
		// an uncommitted batch is not visible
		for _, kk := range keys {
			got, err := me.GetBytes(kk)
			vsym.Assert(err == nil, "read")
			want := committed.get(kk)
			vsym.Assert((got == nil) == (want == nil), "reads see exactly the committed batches: presence")
			if got != nil && want != nil {
				vsym.Assert(len(got) == len(want) && vsym.BytesEq(got, want), "reads see exactly the committed batches: value")
			}
		}
	}
	vsym.Reach("end")
}

// E5: range iterators of the in-memory engine's default (radix) backend, executed from source down to
// go-immutable-radix, on key populations with shared prefixes and keys that are prefixes of each other.
func c20PrefixKeys() (keys [][]byte, hasPrefixPair bool) {
	a, b, c := vsym.U8("ka"), vsym.U8("kb"), vsym.U8("kc")
	switch vsym.Choose("population", 6) {
	case 0:
		return [][]byte{{a}}, false
	case 1:
		vsym.Assume(a < c)
		return [][]byte{{a}, {c}}, false
	case 2:
		return [][]byte{{a}, {a, b}}, true // a key and an extension of it (b may be 0x00)
	case 3:
		vsym.Assume(a < c)
		return [][]byte{{a}, {a, b}, {c}}, true
	case 4:
		vsym.Assume(b < c)
		return [][]byte{{a, b}, {a, c}}, false // shared prefix only
	default:
		vsym.Assume(b < c)
		return [][]byte{{a}, {a, b}, {a, c}}, true
	}
}

func Verif_C20_E5_MemRadixIterator() {
	useMemType = memTypeRadix
	keys, prefixPair := c20PrefixKeys()
	_ = prefixPair
	var o IteratorOpts
	{
		// the bound on the side the scan starts from is nil / 1 / 2 symbolic bytes, the other one nil or 1 byte
		// (both bounds at 2 bytes: jobs of 20+ minutes, outside the claim)
		o.Reverse = vsym.Choose("reverse", 2) == 1
		near, far := c20Bound("near"), []byte(nil)
		if vsym.Choose("far.kind", 2) == 1 {
			far = vsym.Bytes("far", 1)
		}
		if o.Reverse {
			o.Min, o.Max = far, near
		} else {
			o.Min, o.Max = near, far
		}
	}
	o.Type = []uint8{common.RangeClose, common.RangeLOpen, common.RangeROpen, common.RangeOpen}[vsym.Choose("rangetype", 4)]
	// offset/count arithmetic of the wrapper is the subject of E1/E2 (symbolic there); here: none / skip one / take one
	if vsym.Thorough() {
		o.Offset = vsym.Choose("offset", 3)
		o.Count = vsym.Choose("count", 4) - 1
	} else {
		o.Offset = vsym.Choose("offset", 2)
		o.Count = []int{-1, 1}[vsym.Choose("count", 2)]
	}
	if o.Max != nil {
		o.Max = append(make([]byte, 0, len(o.Max)+1), o.Max...)
	}
	want := c20Reference(keys, o)
	var me *memEng
	if vsym.Symbolic() {
		me = &memEng{cfg: &RockEngConfig{}, engOpened: 1}
		r, err := NewRadix()
		vsym.Assert(err == nil, "radix")
		me.radixMemI = r
	} else {
		dir, err := ioutil.TempDir("", "verif-c20m-")
		if err != nil {
			panic(err)
		}
		defer os.RemoveAll(dir)
		cfg := NewRockConfig()
		cfg.DataDir = dir
		me, err = NewMemEng(cfg)
		if err != nil {
			panic(err)
		}
		if err := me.OpenEng(); err != nil {
			panic(err)
		}
		defer me.CloseAll()
	}
	wb := me.NewWriteBatch()
	for _, k := range keys {
		wb.Put(k, []byte("v"))
	}
	vsym.Assert(me.Write(wb) == nil, "write")
	it, err := NewDBRangeLimitIteratorWithOpts(me, o)
	vsym.Assert(err == nil, "iterator creation succeeds")
	defer it.Close() // before the deferred CloseAll, also when an assertion fails natively
	c20Compare(it, want, "mem radix")
	vsym.Reach("end")
}
