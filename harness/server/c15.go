//go:build verif

package server

import (
	"github.com/absolute8511/redcon"
	"github.com/youzan/ZanRedisDB/common"
	"github.com/youzan/ZanRedisDB/node"
	"vsym"
)

// C15 S2 - multi-key commands that span partitions act on each key in its own partition:
// the real getHandlersForKeys regroups the keys; each partition's handler records what it was given.

func Verif_C15_S2_Regroup() {
	pnum := 2 + vsym.Choose("pnum", 2) // 2..3 partitions
	var nodes []*node.NamespaceNode
	for p := 0; p < pnum; p++ {
		pid := p
		nodes = append(nodes, node.VerifMergeNode(common.GetNsDesp("ns", p), func(cmd redcon.Command) (interface{}, error) {
			return int64(pid), nil
		}))
	}
	s := &Server{nsMgr: node.VerifMgr("ns", pnum, nodes)}
	allowStaleRead = 1
	cmdName := []string{"del", "exists", "plset"}[vsym.Choose("cmd", 3)]
	nkeys := 1 + vsym.Choose("nkeys", 3)
	var keys, vals, args [][]byte
	var pids []int
	for i := 0; i < nkeys; i++ {
		k := append([]byte("ns:t:"), vsym.Bytes("key", 1)...)
		keys = append(keys, k)
		pids = append(pids, node.GetHashedPartitionID(k[3:], pnum))
		args = append(args, k)
		if cmdName == "plset" {
			v := vsym.Bytes("val", 1)
			vals = append(vals, v)
			args = append(args, v)
		}
	}
	handlers, cmds, hasWrite, err := s.getHandlersForKeys(cmdName, args)
	vsym.Assert(err == nil, "regrouping succeeds")
	vsym.Assert(hasWrite == (cmdName != "exists"), "write flag")
	vsym.Assert(len(handlers) == len(cmds), "one command per handler")
	step := 1
	if cmdName == "plset" {
		step = 2
	}
	total := 0
	seenPid := map[int64]bool{}
	for i, c := range cmds {
		r, _ := handlers[i](c)
		pid := r.(int64) // which partition's handler this is
		vsym.Assert(!seenPid[pid], "at most one sub-command per partition")
		seenPid[pid] = true
		vsym.Assert(string(c.Args[0]) == cmdName, "sub-command keeps the command name")
		vsym.Assert((len(c.Args)-1)%step == 0, "sub-command has whole key(/value) groups")
		// the sub-command holds exactly the keys of this partition, in their original order, with their values
		j := 1
		for ki := 0; ki < nkeys; ki++ {
			mine := int64(pids[ki]) == pid
			if mine {
				vsym.Assert(j < len(c.Args), "every key of the partition is in its sub-command")
				if j < len(c.Args) {
					vsym.Assert(len(c.Args[j]) == len(keys[ki]) && vsym.BytesEq(c.Args[j], keys[ki]), "keys keep their relative order and bytes")
					if step == 2 {
						vsym.Assert(vsym.BytesEq(c.Args[j+1], vals[ki]), "a value stays with its key")
					}
				}
				j += step
			}
		}
		vsym.Assert(j == len(c.Args), "the sub-command holds no key of another partition")
		total += (len(c.Args) - 1) / step
	}
	vsym.Assert(total == nkeys, "no key is dropped or duplicated")
	// mixed namespaces are rejected
	bad := append(append([][]byte{}, args...), []byte("other:t:k"))
	if cmdName == "plset" {
		bad = append(bad, []byte("v"))
	}
	_, _, _, err = s.getHandlersForKeys(cmdName, bad)
	vsym.Assert(err != nil, "keys of different namespaces in one command are rejected")
	vsym.Reach("end")
}
