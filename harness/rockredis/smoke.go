//go:build verif

package rockredis

import "vsym"

func Verif_Smoke_CollSubKey() {
	tl := vsym.Choose("tlen", 3)
	kl := vsym.Choose("klen", 3)
	fl := vsym.Choose("flen", 3)
	t := vsym.Bytes("t", tl)
	k := vsym.Bytes("k", kl)
	f := vsym.Bytes("f", fl)
	enc := encodeCollSubKey(HashType, t, k, f)
	dt, t2, k2, f2, err := decodeCollSubKey(enc)
	vsym.Assert(err == nil, "decode ok")
	vsym.Assert(dt == HashType, "dt")
	vsym.Assert(vsym.BytesEq(t, t2), "table")
	vsym.Assert(vsym.BytesEq(k, k2), "key")
	vsym.Assert(vsym.BytesEq(f, f2), "field")
	vsym.Reach("end")
}
