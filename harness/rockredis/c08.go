//go:build verif

package rockredis

import (
	"bytes"

	"github.com/youzan/ZanRedisDB/common"
	"vsym"
)

// C08 - commands behave like Redis on ZanRedisDB's per-type keyspaces: differential check of the real
// commands (over the KV engine model / pebble) against a small reference model of Redis semantics with the
// documented deviations (SPOP takes members in key order). Pre-state = reference state built by the real
// write commands; then one command with 1..2 arguments that may coincide; reply and resulting content
// are compared.

var c08Key = []byte("t:k")

const c08T0 = int64(1700000000) * 1e9

type c08Pair struct{ k, v []byte }

// reference: association list kept sorted by name (the enumeration order of the store)
type c08Ref struct{ es []c08Pair }

func c08Eq(a, b []byte) bool { return len(a) == len(b) && bytes.Equal(a, b) }

func (r *c08Ref) find(k []byte) int {
	for i := range r.es {
		if c08Eq(r.es[i].k, k) {
			return i
		}
	}
	return -1
}

// set stores v under k; returns true if k is new
func (r *c08Ref) set(k, v []byte) bool {
	if i := r.find(k); i >= 0 {
		r.es[i].v = v
		return false
	}
	pos := len(r.es)
	for i := range r.es {
		if bytes.Compare(k, r.es[i].k) < 0 {
			pos = i
			break
		}
	}
	r.es = append(r.es, c08Pair{})
	copy(r.es[pos+1:], r.es[pos:])
	r.es[pos] = c08Pair{k, v}
	return true
}

func (r *c08Ref) del(k []byte) bool {
	if i := r.find(k); i >= 0 {
		r.es = append(r.es[:i], r.es[i+1:]...)
		return true
	}
	return false
}

// c08ZOrder: the members of the reference zset (value byte = score + 2) in (score, member) order.
func c08ZOrder(r *c08Ref) [][]byte {
	var out [][]byte
	for sc := 0; sc < 8; sc++ {
		for i := range r.es { // r.es is sorted by member
			if int(r.es[i].v[0]) == sc {
				out = append(out, r.es[i].k)
			}
		}
	}
	return out
}

func c08Name(tag string) []byte { return vsym.Bytes(tag, vsym.Choose(tag+".len", 2)) }

func c08Pre(n int) [][]byte {
	var out [][]byte
	for i := 0; i < n; i++ {
		f := vsym.Bytes("pre", 1)
		for _, o := range out {
			vsym.Assume(f[0] != o[0])
		}
		out = append(out, f)
	}
	return out
}

func Verif_C08_Hash() {
	v := vOpenDB()
	defer v.done()
	db := v.db
	ref := &c08Ref{}
	for i, f := range c08Pre(vsym.Choose("npre", 3)) {
		val := []byte{byte('1' + i)}
		_, err := db.HSet(c08T0, false, c08Key, f, val)
		vsym.Assert(err == nil, "pre HSET")
		ref.set(f, val)
	}
	ts := c08T0 + 1
	switch vsym.Choose("cmd", 5) {
	case 0: // HSET
		f, val := c08Name("f"), vsym.Bytes("v", 1)
		n, err := db.HSet(ts, false, c08Key, f, val)
		isNew := ref.set(f, val)
		vsym.Assert(err == nil && (n == 1) == isNew && (n == 0 || n == 1), "HSET replies 1 for a new field, 0 for an update")
	case 1: // HSETNX
		f, val := c08Name("f"), vsym.Bytes("v", 1)
		n, err := db.HSet(ts, true, c08Key, f, val)
		exists := ref.find(f) >= 0
		if !exists {
			ref.set(f, val)
		}
		vsym.Assert(err == nil && (n == 1) == !exists, "HSETNX sets only a missing field and says so")
	case 2: // HMSET f1 v1 f2 v2: last value wins
		f1, v1, f2, v2 := c08Name("f1"), vsym.Bytes("v1", 1), c08Name("f2"), vsym.Bytes("v2", 1)
		err := db.HMset(ts, c08Key, common.KVRecord{Key: f1, Value: v1}, common.KVRecord{Key: f2, Value: v2})
		vsym.Assert(err == nil, "HMSET ok")
		ref.set(f1, v1)
		ref.set(f2, v2)
	case 3: // HDEL f1 f2: number of fields actually removed
		f1, f2 := c08Name("f1"), c08Name("f2")
		n, err := db.HDel(ts, c08Key, f1, f2)
		want := int64(0)
		if ref.del(f1) {
			want++
		}
		if ref.del(f2) {
			want++
		}
		vsym.Assert(err == nil && n == want, "HDEL replies the number of fields it removed (a repeated field counts once)")
	case 4: // HINCRBY
		f := c08Name("f")
		d := vsym.I64("delta")
		vsym.Assume(d >= -3 && d <= 3)
		n, err := db.HIncrBy(ts, c08Key, f, d)
		old := int64(0)
		if i := ref.find(f); i >= 0 {
			old = int64(ref.es[i].v[0] - '0') // pre-state values are the digits 1..2
		}
		vsym.Assert(err == nil && n == old+d, "HINCRBY replies old + delta (missing field counts as 0)")
		ref.set(f, FormatInt64ToSlice(old+d))
	}
	// resulting content
	n, err := db.HLen(c08Key)
	vsym.Assert(err == nil && n == int64(len(ref.es)), "HLEN = reference size")
	_, all, err := db.HGetAll(c08Key)
	vsym.Assert(err == nil && len(all) == len(ref.es), "HGETALL has the reference's fields")
	for i := range ref.es {
		if i < len(all) {
			vsym.Assert(c08Eq(all[i].Rec.Key, ref.es[i].k) && c08Eq(all[i].Rec.Value, ref.es[i].v), "HGETALL = reference content in field order")
		}
		got, err := db.HGet(c08Key, ref.es[i].k)
		vsym.Assert(err == nil && got != nil && c08Eq(got, ref.es[i].v), "HGET = reference value")
	}
	vsym.Reach("end")
}

func Verif_C08_Set() {
	v := vOpenDB()
	defer v.done()
	db := v.db
	ref := &c08Ref{}
	for _, m := range c08Pre(vsym.Choose("npre", 3)) {
		_, err := db.SAdd(c08T0, c08Key, m)
		vsym.Assert(err == nil, "pre SADD")
		ref.set(m, nil)
	}
	ts := c08T0 + 1
	switch vsym.Choose("cmd", 3) {
	case 0:
		m1, m2 := c08Name("m1"), c08Name("m2")
		n, err := db.SAdd(ts, c08Key, m1, m2)
		want := int64(0)
		if ref.set(m1, nil) {
			want++
		}
		if ref.set(m2, nil) {
			want++
		}
		vsym.Assert(err == nil && n == want, "SADD replies the number of members it added (a repeated member counts once)")
	case 1:
		m1, m2 := c08Name("m1"), c08Name("m2")
		n, err := db.SRem(ts, c08Key, m1, m2)
		want := int64(0)
		if ref.del(m1) {
			want++
		}
		if ref.del(m2) {
			want++
		}
		vsym.Assert(err == nil && n == want, "SREM replies the number of members it removed (a repeated member counts once)")
	case 2:
		cnt := 1 + vsym.Choose("count", 2)
		got, err := db.SPop(ts, c08Key, cnt)
		want := cnt
		if want > len(ref.es) {
			want = len(ref.es)
		}
		vsym.Assert(err == nil && len(got) == want, "SPOP returns min(count, size) members")
		for i := 0; i < want && i < len(got); i++ {
			vsym.Assert(c08Eq(got[i], ref.es[0].k), "SPOP takes members in key order (documented deviation)")
			ref.del(ref.es[0].k)
		}
	}
	n, err := db.SCard(c08Key)
	vsym.Assert(err == nil && n == int64(len(ref.es)), "SCARD = reference size")
	ms, err := db.SMembers(c08Key)
	vsym.Assert(err == nil && len(ms) == len(ref.es), "SMEMBERS has the reference's members")
	for i := range ref.es {
		if i < len(ms) {
			vsym.Assert(c08Eq(ms[i], ref.es[i].k), "SMEMBERS = reference content in member order")
		}
	}
	vsym.Reach("end")
}

func Verif_C08_ZSet() {
	v := vOpenDB()
	defer v.done()
	db := v.db
	ref := &c08Ref{} // v = one byte: score + 2
	for _, m := range c08Pre(vsym.Choose("npre", 3)) {
		sc := vsym.Choose("prescore", 3)
		_, err := db.ZAdd(c08T0, c08Key, common.ScorePair{Score: float64(sc - 1), Member: m})
		vsym.Assert(err == nil, "pre ZADD")
		ref.set(m, []byte{byte(sc + 1)})
	}
	ts := c08T0 + 1
	switch vsym.Choose("cmd", 5) {
	case 3:
		// ZREMRANGEBYRANK with in-range, out-of-range and negative indexes
		start, stop := vsym.Choose("start", 5)-2, vsym.Choose("stop", 6)-2
		n, err := db.ZRemRangeByRank(ts, c08Key, start, stop)
		order := c08ZOrder(ref)
		l := len(order)
		s, e := start, stop
		if s < 0 {
			s += l
		}
		if e < 0 {
			e += l
		}
		if s < 0 {
			s = 0
		}
		if e >= l {
			e = l - 1
		}
		want := 0
		if s <= e && s < l {
			want = e - s + 1
			var victims [][]byte
			for i := s; i <= e; i++ {
				victims = append(victims, order[i])
			}
			for _, k := range victims {
				ref.del(k)
			}
		}
		vsym.Assert(err == nil && n == int64(want), "ZREMRANGEBYRANK replies the number of members in the (clamped) rank range and removes exactly those")
	case 4:
		// ZREMRANGEBYSCORE over the score domain {-1,0,1}
		lo, hi := vsym.Choose("min", 4)-2, vsym.Choose("max", 4)-2
		n, err := db.ZRemRangeByScore(ts, c08Key, float64(lo), float64(hi))
		want := 0
		var victims [][]byte
		for i := range ref.es {
			sc := int(ref.es[i].v[0]) - 2
			if sc >= lo && sc <= hi {
				victims = append(victims, ref.es[i].k)
			}
		}
		for _, k := range victims {
			ref.del(k)
			want++
		}
		vsym.Assert(err == nil && n == int64(want), "ZREMRANGEBYSCORE replies the number of members in the score range and removes exactly those")
	case 0:
		m1, m2 := c08Name("m1"), c08Name("m2")
		s1, s2 := vsym.Choose("s1", 3), vsym.Choose("s2", 3)
		n, err := db.ZAdd(ts, c08Key, common.ScorePair{Score: float64(s1 - 1), Member: m1}, common.ScorePair{Score: float64(s2 - 1), Member: m2})
		want := int64(0)
		if ref.set(m1, []byte{byte(s1 + 1)}) {
			want++
		}
		if ref.set(m2, []byte{byte(s2 + 1)}) {
			want++
		}
		vsym.Assert(err == nil && n == want, "ZADD replies the number of members it added (a repeated member counts once, last score wins)")
	case 1:
		m1, m2 := c08Name("m1"), c08Name("m2")
		n, err := db.ZRem(ts, c08Key, m1, m2)
		want := int64(0)
		if ref.del(m1) {
			want++
		}
		if ref.del(m2) {
			want++
		}
		vsym.Assert(err == nil && n == want, "ZREM replies the number of members it removed (a repeated member counts once)")
	case 2:
		m := c08Name("m")
		d := vsym.Choose("delta", 3) - 1
		got, err := db.ZIncrBy(ts, c08Key, float64(d), m)
		old := 0
		if i := ref.find(m); i >= 0 {
			old = int(ref.es[i].v[0]) - 2
		}
		vsym.Assert(err == nil && got == float64(old+d), "ZINCRBY replies old score + delta (missing member counts as 0)")
		ref.set(m, []byte{byte(old + d + 2)})
	}
	n, err := db.ZCard(c08Key)
	vsym.Assert(err == nil && n == int64(len(ref.es)), "ZCARD = reference size")
	all, err := db.ZRange(c08Key, 0, -1)
	vsym.Assert(err == nil && len(all) == len(ref.es), "ZRANGE has the reference's members")
	for i, sp := range all {
		j := ref.find(sp.Member)
		vsym.Assert(j >= 0, "ZRANGE returns reference members only")
		if j >= 0 {
			vsym.Assert(sp.Score == float64(int(ref.es[j].v[0])-2), "ZRANGE reports the reference score")
		}
		if i > 0 {
			prev := all[i-1]
			ordered := prev.Score < sp.Score || (prev.Score == sp.Score && bytes.Compare(prev.Member, sp.Member) < 0)
			vsym.Assert(ordered, "ZRANGE is ordered by (score, member)")
		}
	}
	for i := range ref.es {
		sc, err := db.ZScore(c08Key, ref.es[i].k)
		vsym.Assert(err == nil && sc == float64(int(ref.es[i].v[0])-2), "ZSCORE = reference score")
	}
	vsym.Reach("end")
}

// lists: index arithmetic incl. negative and out-of-range indexes
func Verif_C08_List() {
	v := vOpenDB()
	defer v.done()
	db := v.db
	var ref [][]byte
	npre := vsym.Choose("npre", 4)
	for i := 0; i < npre; i++ {
		e := []byte{byte('a' + i)}
		_, err := db.RPush(c08T0, c08Key, e)
		vsym.Assert(err == nil, "pre RPUSH")
		ref = append(ref, e)
	}
	ts := c08T0 + 1
	norm := func(i int64) int64 {
		if i < 0 {
			i += int64(len(ref))
		}
		return i
	}
	switch vsym.Choose("cmd", 7) {
	case 0:
		e1, e2 := vsym.Bytes("e1", 1), vsym.Bytes("e2", 1)
		n, err := db.LPush(ts, c08Key, e1, e2)
		ref = append([][]byte{e2, e1}, ref...)
		vsym.Assert(err == nil && n == int64(len(ref)), "LPUSH replies the new length; elements are pushed one after the other")
	case 1:
		e1, e2 := vsym.Bytes("e1", 1), vsym.Bytes("e2", 1)
		n, err := db.RPush(ts, c08Key, e1, e2)
		ref = append(ref, e1, e2)
		vsym.Assert(err == nil && n == int64(len(ref)), "RPUSH replies the new length")
	case 2:
		got, err := db.LPop(ts, c08Key)
		if len(ref) == 0 {
			vsym.Assert(err == nil && got == nil, "LPOP on an empty list is nil")
		} else {
			vsym.Assert(err == nil && c08Eq(got, ref[0]), "LPOP returns the head")
			ref = ref[1:]
		}
	case 3:
		got, err := db.RPop(ts, c08Key)
		if len(ref) == 0 {
			vsym.Assert(err == nil && got == nil, "RPOP on an empty list is nil")
		} else {
			vsym.Assert(err == nil && c08Eq(got, ref[len(ref)-1]), "RPOP returns the tail")
			ref = ref[:len(ref)-1]
		}
	case 4:
		start, stop := vsym.I64("start"), vsym.I64("stop")
		vsym.Assume(start >= -4 && start <= 4 && stop >= -4 && stop <= 4)
		err := db.LTrim(ts, c08Key, start, stop)
		vsym.Assert(err == nil, "LTRIM ok")
		s, e := norm(start), norm(stop)
		if s < 0 {
			s = 0
		}
		if e >= int64(len(ref)) {
			e = int64(len(ref)) - 1
		}
		if s > e || s >= int64(len(ref)) {
			ref = nil
		} else {
			ref = ref[s : e+1]
		}
	case 5:
		idx := vsym.I64("idx")
		vsym.Assume(idx >= -4 && idx <= 4)
		e := vsym.Bytes("e", 1)
		err := db.LSet(ts, c08Key, idx, e)
		i := norm(idx)
		if i < 0 || i >= int64(len(ref)) {
			vsym.Assert(err != nil, "LSET outside the list is an error")
		} else {
			vsym.Assert(err == nil, "LSET inside the list succeeds")
			ref = append(append(append([][]byte{}, ref[:i]...), e), ref[i+1:]...)
		}
	case 6:
		idx := vsym.I64("idx")
		vsym.Assume(idx >= -4 && idx <= 4)
		got, err := db.LIndex(c08Key, idx)
		i := norm(idx)
		if i < 0 || i >= int64(len(ref)) {
			vsym.Assert(err == nil && got == nil, "LINDEX outside the list is nil")
		} else {
			vsym.Assert(err == nil && c08Eq(got, ref[i]), "LINDEX returns the element (negative indexes count from the tail)")
		}
	}
	n, err := db.LLen(c08Key)
	vsym.Assert(err == nil && n == int64(len(ref)), "LLEN = reference length")
	all, err := db.LRange(c08Key, 0, -1)
	vsym.Assert(err == nil && len(all) == len(ref), "LRANGE 0 -1 has the reference's elements")
	for i := range ref {
		if i < len(all) {
			vsym.Assert(c08Eq(all[i], ref[i]), "LRANGE = reference content in order")
		}
	}
	// LRANGE with arbitrary bounds
	start, stop := vsym.I64("rstart"), vsym.I64("rstop")
	vsym.Assume(start >= -4 && start <= 4 && stop >= -4 && stop <= 4)
	part, err := db.LRange(c08Key, start, stop)
	s, e := norm(start), norm(stop)
	if s < 0 {
		s = 0
	}
	if e >= int64(len(ref)) {
		e = int64(len(ref)) - 1
	}
	if s > e || s >= int64(len(ref)) {
		vsym.Assert(err == nil && len(part) == 0, "LRANGE outside the list is empty")
	} else {
		vsym.Assert(err == nil && int64(len(part)) == e-s+1, "LRANGE returns the clamped range")
		for i := range part {
			vsym.Assert(c08Eq(part[i], ref[s+int64(i)]), "LRANGE returns the right elements")
		}
	}
	vsym.Reach("end")
}

// strings
func Verif_C08_KV() {
	v := vOpenDB()
	defer v.done()
	db := v.db
	var ref []byte // nil = absent
	switch vsym.Choose("pre", 3) {
	case 1:
		ref = []byte("7")
	case 2:
		ref = vsym.Bytes("prev", 2)
	}
	if ref != nil {
		vsym.Assert(db.KVSet(c08T0, c08Key, ref) == nil, "pre SET")
	}
	ts := c08T0 + 1
	arg := vsym.Bytes("arg", 1+vsym.Choose("arglen", 2))
	switch vsym.Choose("cmd", 8) {
	case 0:
		vsym.Assert(db.KVSet(ts, c08Key, arg) == nil, "SET ok")
		ref = arg
	case 1:
		n, err := db.SetNX(ts, c08Key, arg)
		if ref == nil {
			vsym.Assert(err == nil && n == 1, "SETNX on a missing key sets it")
			ref = arg
		} else {
			vsym.Assert(err == nil && n == 0, "SETNX on an existing key does nothing")
		}
	case 2:
		old, err := db.KVGetSet(ts, c08Key, arg)
		vsym.Assert(err == nil && (old == nil) == (ref == nil) && (ref == nil || c08Eq(old, ref)), "GETSET returns the old value")
		ref = arg
	case 3:
		n, err := db.Append(ts, c08Key, arg)
		ref = append(append([]byte{}, ref...), arg...)
		vsym.Assert(err == nil && n == int64(len(ref)), "APPEND replies the new length")
	case 4:
		off := vsym.Choose("offset", 4)
		n, err := db.SetRange(ts, c08Key, off, arg)
		nr := append([]byte{}, ref...)
		for len(nr) < off+len(arg) {
			nr = append(nr, 0)
		}
		copy(nr[off:], arg)
		ref = nr
		vsym.Assert(err == nil && n == int64(len(ref)), "SETRANGE pads with zero bytes and replies the new length")
	case 5:
		n, err := db.Incr(ts, c08Key)
		if ref == nil {
			vsym.Assert(err == nil && n == 1, "INCR on a missing key is 1")
			ref = []byte("1")
		} else if len(ref) == 1 && ref[0] == '7' {
			vsym.Assert(err == nil && n == 8, "INCR adds one")
			ref = []byte("8")
		} else {
			// arbitrary 2 bytes: numeric or an error; either way the value is a function of the old one
			if err != nil {
				vsym.Reach("incr-error")
			} else {
				ref = FormatInt64ToSlice(n)
			}
		}
	case 6:
		start, end := vsym.I64("start"), vsym.I64("end")
		vsym.Assume(start >= -3 && start <= 3 && end >= -3 && end <= 3)
		got, err := db.GetRange(c08Key, start, end)
		l := int64(len(ref))
		s, e := start, end
		reversedNeg := start < 0 && end < 0 && start > end // redis: empty
		if s < 0 {
			s += l
		}
		if e < 0 {
			e += l
		}
		if s < 0 {
			s = 0
		}
		if e < 0 {
			e = 0 // redis clamps a still negative end to the first byte
		}
		if e >= l {
			e = l - 1
		}
		if l == 0 || s > e || reversedNeg {
			vsym.Assert(err == nil && len(got) == 0, "GETRANGE outside the value is empty")
		} else {
			vsym.Assert(err == nil && c08Eq(got, ref[s:e+1]), "GETRANGE returns the clamped substring (negative offsets count from the end)")
		}
	case 7:
		n, err := db.StrLen(c08Key)
		vsym.Assert(err == nil && n == int64(len(ref)), "STRLEN = length (0 for a missing key)")
	}
	got, err := db.KVGet(c08Key)
	vsym.Assert(err == nil && (got == nil) == (ref == nil), "GET: presence as in the reference")
	if got != nil && ref != nil {
		vsym.Assert(c08Eq(got, ref), "GET = reference value")
	}
	ex, err := db.KVExists(c08Key)
	vsym.Assert(err == nil && (ex == 1) == (ref != nil), "EXISTS as in the reference")
	vsym.Reach("end")
}
