//go:build verif

package rockredis

import (
	"github.com/youzan/ZanRedisDB/common"
	"vsym"
)

// C09 - counting commands always agree with enumerating commands.
// The store is the KV model (symbolic) / the real pebble engine (replay). Pre-states are built by
// the real write commands on distinct symbolic element names; then one command under test runs with
// 1..2 arguments whose names may coincide with each other and with existing elements (the solver
// decides), and the size/enumeration/point-lookup agreement is asserted.

const c09T0 = int64(1700000000) * 1e9

var c09Key = []byte("t:k")

// element names of 0 or 1 symbolic byte (the empty name is legal)
func c09Name(tag string) []byte { return vsym.Bytes(tag, vsym.Choose(tag+".len", 2)) }

// distinct symbolic names for the pre-state
func c09Distinct(n int, tag string) [][]byte { return c09DistinctL(n, tag, true) }

func c09DistinctL(n int, tag string, allowEmpty bool) [][]byte {
	var out [][]byte
	for i := 0; i < n; i++ {
		f := vsym.Bytes(tag, 1)
		if allowEmpty {
			f = c09Name(tag)
		}
		for _, o := range out {
			if len(f) == len(o) {
				if len(f) == 0 {
					vsym.Assume(false)
				} else {
					vsym.Assume(f[0] != o[0])
				}
			}
		}
		out = append(out, f)
	}
	return out
}

func c09CheckHash(v *vDB, what string) {
	db := v.db
	n, err := db.HLen(c09Key)
	vsym.Assert(err == nil, what+": HLEN ok")
	cnt, all, err := db.HGetAll(c09Key)
	vsym.Assert(err == nil, what+": HGETALL ok")
	vsym.Assert(int64(len(all)) == n, what+": HLEN = |HGETALL|")
	vsym.Assert(cnt == n, what+": HGETALL count = HLEN")
	_, ks, err := db.HKeys(c09Key)
	vsym.Assert(err == nil && int64(len(ks)) == n, what+": HLEN = |HKEYS|")
	_, vs, err := db.HValues(c09Key)
	vsym.Assert(err == nil && int64(len(vs)) == n, what+": HLEN = |HVALS|")
	ex, err := db.HKeyExists(c09Key)
	vsym.Assert(err == nil && (ex == 1) == (n > 0), what+": HKEYEXIST iff at least one field")
	for i, r := range all {
		got, err := db.HGet(c09Key, r.Rec.Key)
		vsym.Assert(err == nil && got != nil, what+": an enumerated field is reachable by HGET")
		if got != nil {
			vsym.Assert(len(got) == len(r.Rec.Value) && vsym.BytesEq(got, r.Rec.Value), what+": HGET returns the enumerated value")
		}
		for j := 0; j < i; j++ {
			vsym.Assert(!(len(all[j].Rec.Key) == len(r.Rec.Key) && vsym.BytesEq(all[j].Rec.Key, r.Rec.Key)), what+": each field is enumerated once")
		}
	}
}

func Verif_C09_Hash() {
	v := vOpenDB()
	defer v.done()
	db := v.db
	pre := c09Distinct(vsym.Choose("npre", 3), "pre")
	for i, f := range pre {
		_, err := db.HSet(c09T0+int64(i), false, c09Key, f, []byte{byte('1' + i)})
		vsym.Assert(err == nil, "pre-state HSET")
	}
	ts := c09T0 + 10
	switch vsym.Choose("cmd", 6) {
	case 0:
		_, err := db.HSet(ts, false, c09Key, c09Name("f"), vsym.Bytes("v", 1))
		vsym.Assert(err == nil, "HSET ok")
	case 1:
		_, err := db.HSet(ts, true, c09Key, c09Name("f"), vsym.Bytes("v", 1))
		vsym.Assert(err == nil, "HSETNX ok")
	case 2:
		err := db.HMset(ts, c09Key, common.KVRecord{Key: c09Name("f1"), Value: vsym.Bytes("v1", 1)}, common.KVRecord{Key: c09Name("f2"), Value: vsym.Bytes("v2", 1)})
		vsym.Assert(err == nil, "HMSET ok")
	case 3:
		n, err := db.HDel(ts, c09Key, c09Name("f1"), c09Name("f2"))
		vsym.Assert(err == nil && n >= 0 && n <= 2, "HDEL ok")
	case 4:
		d := vsym.I64("delta")
		vsym.Assume(d >= -3 && d <= 3)
		_, err := db.HIncrBy(ts, c09Key, c09Name("f"), d)
		_ = err // a non-numeric existing value is an error; the invariant must hold either way
	case 5:
		_, err := db.HClear(ts, c09Key)
		vsym.Assert(err == nil, "HCLEAR ok")
	}
	c09CheckHash(v, "hash")
	vsym.Reach("end")
}


// ---- sets ----

func c09CheckSet(v *vDB, what string) {
	db := v.db
	n, err := db.SCard(c09Key)
	vsym.Assert(err == nil, what+": SCARD ok")
	ms, err := db.SMembers(c09Key)
	vsym.Assert(err == nil, what+": SMEMBERS ok")
	vsym.Assert(int64(len(ms)) == n, what+": SCARD = |SMEMBERS|")
	ex, err := db.SKeyExists(c09Key)
	vsym.Assert(err == nil && (ex == 1) == (n > 0), what+": SKEYEXIST iff at least one member")
	for i, m := range ms {
		is, err := db.SIsMember(c09Key, m)
		vsym.Assert(err == nil && is == 1, what+": an enumerated member is found by SISMEMBER")
		for j := 0; j < i; j++ {
			vsym.Assert(!(len(ms[j]) == len(m) && vsym.BytesEq(ms[j], m)), what+": each member is enumerated once")
		}
	}
}

func Verif_C09_Set() {
	v := vOpenDB()
	defer v.done()
	db := v.db
	pre := c09Distinct(vsym.Choose("npre", 3), "pre")
	if len(pre) > 0 {
		_, err := db.SAdd(c09T0, c09Key, pre...)
		vsym.Assert(err == nil, "pre-state SADD")
	}
	ts := c09T0 + 10
	switch vsym.Choose("cmd", 4) {
	case 0:
		n, err := db.SAdd(ts, c09Key, c09Name("m1"), c09Name("m2"))
		vsym.Assert(err == nil && n >= 0 && n <= 2, "SADD ok")
	case 1:
		n, err := db.SRem(ts, c09Key, c09Name("m1"), c09Name("m2"))
		vsym.Assert(err == nil && n >= 0 && n <= 2, "SREM ok")
	case 2:
		cnt := 1 + vsym.Choose("popcount", 2)
		got, err := db.SPop(ts, c09Key, cnt)
		vsym.Assert(err == nil && len(got) <= cnt, "SPOP ok")
	case 3:
		_, err := db.SClear(ts, c09Key)
		vsym.Assert(err == nil, "SCLEAR ok")
	}
	c09CheckSet(v, "set")
	vsym.Reach("end")
}

// ---- sorted sets ----

func c09CheckZSet(v *vDB, what string) {
	db := v.db
	n, err := db.ZCard(c09Key)
	vsym.Assert(err == nil, what+": ZCARD ok")
	all, err := db.ZRange(c09Key, 0, -1)
	vsym.Assert(err == nil, what+": ZRANGE ok")
	vsym.Assert(int64(len(all)) == n, what+": ZCARD = |ZRANGE 0 -1|")
	byScore, err := db.ZRangeByScore(c09Key, common.MinScore, common.MaxScore, 0, -1)
	vsym.Assert(err == nil && int64(len(byScore)) == n, what+": ZCARD = |ZRANGEBYSCORE -inf +inf|")
	byLex, err := db.ZRangeByLex(c09Key, nil, nil, common.RangeClose, 0, -1)
	vsym.Assert(err == nil && int64(len(byLex)) == n, what+": ZCARD = |ZRANGEBYLEX - +|")
	ex, err := db.ZKeyExists(c09Key)
	vsym.Assert(err == nil && (ex == 1) == (n > 0), what+": ZKEYEXIST iff at least one member")
	for i, sp := range all {
		sc, err := db.ZScore(c09Key, sp.Member)
		vsym.Assert(err == nil, what+": an enumerated member is found by ZSCORE")
		vsym.Assert(sc == sp.Score, what+": ZSCORE reports the enumerated score")
		for j := 0; j < i; j++ {
			vsym.Assert(!(len(all[j].Member) == len(sp.Member) && vsym.BytesEq(all[j].Member, sp.Member)), what+": each member is enumerated once")
		}
	}
}

func c09Score(tag string) float64 {
	// three concrete scores chosen structurally: ties are possible, no NaN/Inf (the float codec itself is C12's subject)
	return float64(vsym.Choose(tag, 3) - 1)
}

func Verif_C09_ZSet() {
	v := vOpenDB()
	defer v.done()
	db := v.db
	pre := c09DistinctL(vsym.Choose("npre", 3), "pre", vsym.Thorough())
	for _, m := range pre {
		_, err := db.ZAdd(c09T0, c09Key, common.ScorePair{Score: c09Score("prescore"), Member: m})
		vsym.Assert(err == nil, "pre-state ZADD")
	}
	ts := c09T0 + 10
	switch vsym.Choose("cmd", 5) {
	case 0:
		n, err := db.ZAdd(ts, c09Key, common.ScorePair{Score: c09Score("s1"), Member: c09Name("m1")}, common.ScorePair{Score: c09Score("s2"), Member: c09Name("m2")})
		vsym.Assert(err == nil && n >= 0 && n <= 2, "ZADD ok")
	case 1:
		n, err := db.ZRem(ts, c09Key, c09Name("m1"), c09Name("m2"))
		vsym.Assert(err == nil && n >= 0 && n <= 2, "ZREM ok")
	case 2:
		_, err := db.ZIncrBy(ts, c09Key, c09Score("delta"), c09Name("m"))
		vsym.Assert(err == nil, "ZINCRBY ok")
	case 3:
		_, err := db.ZRemRangeByRank(ts, c09Key, 0, 0)
		vsym.Assert(err == nil, "ZREMRANGEBYRANK ok")
	case 4:
		_, err := db.ZClear(ts, c09Key)
		vsym.Assert(err == nil, "ZCLEAR ok")
	}
	c09CheckZSet(v, "zset")
	vsym.Reach("end")
}

// ---- lists ----

func c09CheckList(v *vDB, what string) {
	db := v.db
	n, err := db.LLen(c09Key)
	vsym.Assert(err == nil, what+": LLEN ok")
	all, err := db.LRange(c09Key, 0, -1)
	vsym.Assert(err == nil, what+": LRANGE ok")
	vsym.Assert(int64(len(all)) == n, what+": LLEN = |LRANGE 0 -1|")
	ex, err := db.LKeyExists(c09Key)
	vsym.Assert(err == nil && (ex == 1) == (n > 0), what+": LKEYEXIST iff at least one element")
	for i, e := range all {
		got, err := db.LIndex(c09Key, int64(i))
		vsym.Assert(err == nil && got != nil, what+": an enumerated element is reachable by LINDEX")
		if got != nil {
			vsym.Assert(len(got) == len(e) && vsym.BytesEq(got, e), what+": LINDEX returns the enumerated element")
		}
	}
}

func Verif_C09_List() {
	v := vOpenDB()
	defer v.done()
	db := v.db
	npre := vsym.Choose("npre", 3)
	for i := 0; i < npre; i++ {
		_, err := db.RPush(c09T0, c09Key, vsym.Bytes("pre", 1))
		vsym.Assert(err == nil, "pre-state RPUSH")
	}
	ts := c09T0 + 10
	switch vsym.Choose("cmd", 7) {
	case 0:
		_, err := db.LPush(ts, c09Key, vsym.Bytes("e1", 1), vsym.Bytes("e2", 1))
		vsym.Assert(err == nil, "LPUSH ok")
	case 1:
		_, err := db.RPush(ts, c09Key, vsym.Bytes("e1", 1))
		vsym.Assert(err == nil, "RPUSH ok")
	case 2:
		_, err := db.LPop(ts, c09Key)
		vsym.Assert(err == nil, "LPOP ok")
	case 3:
		_, err := db.RPop(ts, c09Key)
		vsym.Assert(err == nil, "RPOP ok")
	case 4:
		start := vsym.I64("start")
		stop := vsym.I64("stop")
		vsym.Assume(start >= -3 && start <= 3 && stop >= -3 && stop <= 3)
		_ = db.LTrim(ts, c09Key, start, stop)
	case 5:
		idx := vsym.I64("idx")
		vsym.Assume(idx >= -3 && idx <= 3)
		_ = db.LSet(ts, c09Key, idx, vsym.Bytes("e", 1))
	case 6:
		_, err := db.LClear(ts, c09Key)
		vsym.Assert(err == nil, "LCLEAR ok")
	}
	c09CheckList(v, "list")
	vsym.Reach("end")
}
