//go:build verif

package rockredis

import (
	"bytes"
	"encoding/binary"
	"io/ioutil"
	"os"

	"github.com/youzan/ZanRedisDB/common"
	"github.com/youzan/ZanRedisDB/engine"
	"github.com/youzan/ZanRedisDB/metric"
	"vsym"
)

// KV model of a storage engine, written in Go and symbolically executed like any other code
// (DESIGN.md 2.4): a sorted association list of (key, value), write batch = ordered op list applied
// atomically on Write, iterator = cursor over a snapshot with the documented bounds (lower inclusive,
// upper exclusive). Natively (replay) the real pebble engine is opened instead.

type vKV struct{ k, v []byte }

type vEngine struct {
	engine.KVEngine // methods not modelled are not reachable in the harnesses (nil interface: would panic)
	kvs             []vKV // strictly increasing keys
	writes          int   // number of committed batches
}

func (e *vEngine) find(key []byte) int {
	for i := range e.kvs {
		if len(e.kvs[i].k) == len(key) && bytes.Equal(e.kvs[i].k, key) {
			return i
		}
	}
	return -1
}

func (e *vEngine) GetBytesNoLock(key []byte) ([]byte, error) {
	if i := e.find(key); i >= 0 {
		return append([]byte{}, e.kvs[i].v...), nil
	}
	return nil, nil
}
func (e *vEngine) GetBytes(key []byte) ([]byte, error) { return e.GetBytesNoLock(key) }
func (e *vEngine) ExistNoLock(key []byte) (bool, error) { return e.find(key) >= 0, nil }
func (e *vEngine) Exist(key []byte) (bool, error)       { return e.find(key) >= 0, nil }
func (e *vEngine) GetValueWithOpNoLock(key []byte, op func([]byte) error) error {
	v, _ := e.GetBytesNoLock(key)
	return op(v)
}
func (e *vEngine) GetValueWithOp(key []byte, op func([]byte) error) error {
	return e.GetValueWithOpNoLock(key, op)
}
func (e *vEngine) MultiGetBytes(keyList [][]byte, values [][]byte, errs []error) {
	for i, k := range keyList {
		values[i], errs[i] = e.GetBytesNoLock(k)
	}
}
type vRef struct{ b []byte }

func (r *vRef) Data() []byte  { return r.b }
func (r *vRef) Bytes() []byte { return append([]byte{}, r.b...) }
func (r *vRef) Free()         {}

func (e *vEngine) GetRefNoLock(key []byte) (engine.RefSlice, error) {
	v, _ := e.GetBytesNoLock(key)
	return &vRef{v}, nil
}
func (e *vEngine) GetRef(key []byte) (engine.RefSlice, error) { return e.GetRefNoLock(key) }

func (e *vEngine) IsClosed() bool                           { return false }
func (e *vEngine) AddDeletedCnt(c int64)                    {}
func (e *vEngine) DeletedBeforeCompact() int64              { return 0 }
func (e *vEngine) CompactRange(rg engine.CRange)            {}
func (e *vEngine) DeleteFilesInRange(rg engine.CRange)      {}
func (e *vEngine) NewWriteBatch() engine.WriteBatch         { return &vBatch{e: e} }
func (e *vEngine) DefaultWriteBatch() engine.WriteBatch     { return &vBatch{e: e} }
func (e *vEngine) GetApproximateKeyNum([]engine.CRange) uint64 { return uint64(len(e.kvs)) }

func (e *vEngine) put(k, v []byte) {
	if i := e.find(k); i >= 0 {
		e.kvs[i].v = v
		return
	}
	pos := len(e.kvs)
	for i := range e.kvs {
		if bytes.Compare(k, e.kvs[i].k) < 0 {
			pos = i
			break
		}
	}
	e.kvs = append(e.kvs, vKV{})
	copy(e.kvs[pos+1:], e.kvs[pos:])
	e.kvs[pos] = vKV{k, v}
}

func (e *vEngine) del(k []byte) {
	if i := e.find(k); i >= 0 {
		e.kvs = append(e.kvs[:i], e.kvs[i+1:]...)
	}
}

func (e *vEngine) Write(wb engine.WriteBatch) error {
	b := wb.(*vBatch)
	for _, op := range b.ops {
		switch op.kind {
		case 'p':
			e.put(op.k, op.v)
		case 'd':
			e.del(op.k)
		case 'r':
			var keep []vKV
			for _, kv := range e.kvs {
				if bytes.Compare(kv.k, op.k) >= 0 && bytes.Compare(kv.k, op.v) < 0 {
					continue
				}
				keep = append(keep, kv)
			}
			e.kvs = keep
		case 'm':
			// uint64 add merge operator (little endian 8 bytes; missing or malformed existing value counts as 0)
			var old uint64
			if i := e.find(op.k); i >= 0 && len(e.kvs[i].v) == 8 {
				old = binary.LittleEndian.Uint64(e.kvs[i].v)
			}
			var add uint64
			if len(op.v) == 8 {
				add = binary.LittleEndian.Uint64(op.v)
			}
			nv := make([]byte, 8)
			binary.LittleEndian.PutUint64(nv, old+add)
			e.put(op.k, nv)
		}
	}
	e.writes++
	return nil
}

func (e *vEngine) GetIterator(o engine.IteratorOpts) (engine.Iterator, error) {
	it := &vIter{kvs: append([]vKV{}, e.kvs...), pos: -1, lower: o.Min}
	if o.Max != nil {
		it.upper = append([]byte{}, o.Max...)
		if o.Type&common.RangeROpen == 0 {
			it.upper = append(it.upper, 0)
		}
	}
	return it, nil
}

type vOp struct {
	kind byte
	k, v []byte
}

type vBatch struct {
	e   *vEngine
	ops []vOp
}

func (b *vBatch) Destroy()                     {}
func (b *vBatch) Clear()                       { b.ops = nil }
func (b *vBatch) DeleteRange(start, end []byte) { b.ops = append(b.ops, vOp{'r', append([]byte{}, start...), append([]byte{}, end...)}) }
func (b *vBatch) Delete(key []byte)            { b.ops = append(b.ops, vOp{'d', append([]byte{}, key...), nil}) }
func (b *vBatch) Put(key []byte, value []byte) { b.ops = append(b.ops, vOp{'p', append([]byte{}, key...), append([]byte{}, value...)}) }
func (b *vBatch) Merge(key []byte, value []byte) { b.ops = append(b.ops, vOp{'m', append([]byte{}, key...), append([]byte{}, value...)}) }
func (b *vBatch) Commit() error                { return b.e.Write(b) }

type vIter struct {
	kvs          []vKV
	pos          int
	lower, upper []byte
	noTs         byte
}

func (it *vIter) inb(i int) bool {
	if i < 0 || i >= len(it.kvs) {
		return false
	}
	if it.lower != nil && bytes.Compare(it.kvs[i].k, it.lower) < 0 {
		return false
	}
	if it.upper != nil && bytes.Compare(it.kvs[i].k, it.upper) >= 0 {
		return false
	}
	return true
}
func (it *vIter) Valid() bool { return it.inb(it.pos) }
func (it *vIter) Next() {
	if it.pos < len(it.kvs) {
		it.pos++
	}
}
func (it *vIter) Prev() {
	if it.pos >= 0 {
		it.pos--
	}
}
func (it *vIter) Seek(t []byte) {
	it.pos = len(it.kvs)
	for i := range it.kvs {
		if bytes.Compare(it.kvs[i].k, t) >= 0 && (it.lower == nil || bytes.Compare(it.kvs[i].k, it.lower) >= 0) {
			it.pos = i
			return
		}
	}
}
func (it *vIter) SeekForPrev(t []byte) {
	it.pos = -1
	for i := len(it.kvs) - 1; i >= 0; i-- {
		if bytes.Compare(it.kvs[i].k, t) <= 0 && (it.upper == nil || bytes.Compare(it.kvs[i].k, it.upper) < 0) {
			it.pos = i
			return
		}
	}
}
func (it *vIter) SeekToFirst() {
	it.pos = len(it.kvs)
	for i := range it.kvs {
		if it.lower == nil || bytes.Compare(it.kvs[i].k, it.lower) >= 0 {
			it.pos = i
			return
		}
	}
}
func (it *vIter) SeekToLast() {
	it.pos = -1
	for i := len(it.kvs) - 1; i >= 0; i-- {
		if it.upper == nil || bytes.Compare(it.kvs[i].k, it.upper) < 0 {
			it.pos = i
			return
		}
	}
}
func (it *vIter) Close()          {}
func (it *vIter) RefKey() []byte  { return it.kvs[it.pos].k }
func (it *vIter) Key() []byte     { return append([]byte{}, it.kvs[it.pos].k...) }
func (it *vIter) RefValue() []byte {
	v := it.kvs[it.pos].v
	if (it.noTs == KVType || it.noTs == HashType) && len(v) >= tsLen {
		v = v[:len(v)-tsLen]
	}
	return v
}
func (it *vIter) Value() []byte       { return append([]byte{}, it.RefValue()...) }
func (it *vIter) NoTimestamp(vt byte) { it.noTs = vt }

// ---- a RockDB over the model (symbolic) or over the real pebble engine (native replay) ----

type vDB struct {
	db    *RockDB
	model *vEngine
	done  func()
}

func vOpenDB() *vDB { return vOpenDBPolicy(common.WaitCompact) }

func vOpenDBPolicy(policy common.ExpirationPolicy) *vDB {
	if vsym.Symbolic() {
		e := &vEngine{}
		cfg := &RockRedisDBConfig{} // NewRockRedisDBConfig sizes caches from the machine's memory; not needed for the model
		cfg.ExpirationPolicy = policy
		if policy == common.WaitCompact {
			cfg.DataVersion = common.ValueHeaderV1
		}
		cfg.EnableTableCounter = true
		db := &RockDB{cfg: cfg, rockEng: e, wb: e.DefaultWriteBatch(), indexMgr: NewIndexMgr(),
			topLargeCollKeys: metric.NewCollSizeHeap(metric.DefaultHeapCapacity), engOpened: 1}
		hc, err := newHLLCache(8, 8, db)
		if err != nil {
			panic(err)
		}
		db.hllCache = hc
		if policy == common.WaitCompact {
			db.expiration = newCompactExpiration(db)
		} else {
			db.expiration = newLocalExpiration(db)
		}
		return &vDB{db: db, model: e, done: func() {}}
	}
	dir, err := ioutil.TempDir("", "verif-rockredis-")
	if err != nil {
		panic(err)
	}
	cfg := NewRockRedisDBConfig()
	cfg.DataDir = dir
	cfg.EngineType = "pebble"
	cfg.ExpirationPolicy = policy
	if policy == common.WaitCompact {
		cfg.DataVersion = common.ValueHeaderV1
	}
	cfg.EnableTableCounter = true
	db, err := OpenRockDB(cfg)
	if err != nil {
		panic(err)
	}
	return &vDB{db: db, done: func() { db.Close(); os.RemoveAll(dir) }}
}

// rawPut writes a raw db key directly (pre-state construction), through the engine's own batch.
func (v *vDB) rawPut(k, val []byte) {
	wb := v.db.rockEng.NewWriteBatch()
	wb.Put(k, val)
	if err := v.db.rockEng.Write(wb); err != nil {
		panic(err)
	}
	wb.Destroy()
}

// rawGet reads a raw db key.
func (v *vDB) rawGet(k []byte) []byte {
	b, err := v.db.rockEng.GetBytes(k)
	if err != nil {
		panic(err)
	}
	return b
}

// countRange counts raw keys in [start, stop).
func (v *vDB) countRange(start, stop []byte) int {
	it, err := v.db.NewDBRangeIterator(start, stop, common.RangeROpen, false)
	if err != nil {
		panic(err)
	}
	defer it.Close()
	n := 0
	for ; it.Valid(); it.Next() {
		n++
		if n > 16 {
			break
		}
	}
	return n
}
