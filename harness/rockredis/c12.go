//go:build verif

package rockredis

import (
	"bytes"

	"github.com/youzan/ZanRedisDB/common"
	"vsym"
)

// C12 - keys never interfere. Harnesses for the key encoders of rockredis.
// Lengths are structural (vsym.Choose), bytes are symbolic.

const c12MaxLen = 3 // names of 0..2 bytes in the quick tier; see c12Len()

func c12Len(name string) int { return vsym.Choose(name, c12MaxLen) }

type c12Tuple struct {
	t, k, f []byte
}

func c12Sym(tag string) c12Tuple {
	tl := c12Len(tag + ".tlen")
	kl := c12Len(tag + ".klen")
	fl := c12Len(tag + ".flen")
	return c12Tuple{vsym.Bytes(tag+".t", tl), vsym.Bytes(tag+".k", kl), vsym.Bytes(tag+".f", fl)}
}

func c12Same(a, b c12Tuple) bool {
	if len(a.t) != len(b.t) || len(a.k) != len(b.k) || len(a.f) != len(b.f) {
		return false
	}
	return vsym.And(vsym.BytesEq(a.t, b.t), vsym.And(vsym.BytesEq(a.k, b.k), vsym.BytesEq(a.f, b.f)))
}

func c12SameTK(a, b c12Tuple) bool {
	if len(a.t) != len(b.t) || len(a.k) != len(b.k) {
		return false
	}
	return vsym.And(vsym.BytesEq(a.t, b.t), vsym.BytesEq(a.k, b.k))
}

// bytesLE: a <= b lexicographically, as a term.
func c12LE(a, b []byte) bool { return !vsym.BytesLess(b, a) }

// K1/K2 for hash, set, zset-member keys: injective, decodable, typed.
func Verif_C12_CollSubKey_Injective() {
	dts := []byte{HashType, SetType, ZSetType}
	dta := dts[vsym.Choose("dta", 3)]
	dtb := dts[vsym.Choose("dtb", 3)]
	a := c12Sym("a")
	b := c12Sym("b")
	ea := encodeCollSubKey(dta, a.t, a.k, a.f)
	eb := encodeCollSubKey(dtb, b.t, b.k, b.f)
	if len(ea) == len(eb) {
		same := vsym.And(dta == dtb, c12Same(a, b))
		vsym.Assert(vsym.Implies(vsym.BytesEq(ea, eb), same), "encodeCollSubKey injective across (type,table,key,sub-key)")
	}
	dt, t2, k2, f2, err := decodeCollSubKey(ea)
	vsym.Assert(err == nil, "decodeCollSubKey accepts what encodeCollSubKey produced")
	vsym.Assert(dt == dta, "decoded type")
	vsym.Assert(vsym.BytesEq(t2, a.t), "decoded table")
	vsym.Assert(vsym.BytesEq(k2, a.k), "decoded key")
	vsym.Assert(vsym.BytesEq(f2, a.f), "decoded sub-key")
	vsym.Reach("end")
}

// K3 for hash/set/zset-member: [start(t,k), stop(t,k)) contains exactly the sub-keys of (t,k).
func Verif_C12_CollSubKey_Range() {
	which := vsym.Choose("type", 3)
	a := c12Sym("a")
	b := c12Sym("b")
	var start, stop, ea, eb []byte
	switch which {
	case 0:
		start, stop = hEncodeStartKey(a.t, a.k), hEncodeStopKey(a.t, a.k)
		ea, eb = hEncodeHashKey(a.t, a.k, a.f), hEncodeHashKey(b.t, b.k, b.f)
	case 1:
		start, stop = sEncodeStartKey(a.t, a.k), sEncodeStopKey(a.t, a.k)
		ea, eb = sEncodeSetKey(a.t, a.k, a.f), sEncodeSetKey(b.t, b.k, b.f)
	default:
		start, stop = zEncodeStartSetKey(a.t, a.k), zEncodeStopSetKey(a.t, a.k)
		ea, eb = zEncodeSetKey(a.t, a.k, a.f), zEncodeSetKey(b.t, b.k, b.f)
	}
	vsym.Assert(c12LE(start, ea), "start <= own element key")
	vsym.Assert(vsym.BytesLess(ea, stop), "own element key < stop")
	inRange := vsym.And(c12LE(start, eb), vsym.BytesLess(eb, stop))
	vsym.Assert(vsym.Implies(inRange, c12SameTK(a, b)), "only sub-keys of the same (table,key) fall into [start,stop)")
	vsym.Reach("end")
}

// list element keys: injective in (table,key,seq), decodable, and the per-key range [seq min, seq max] is exclusive.
func Verif_C12_ListKey() {
	a := c12Sym("a")
	b := c12Sym("b")
	sa := vsym.I64("seqa")
	sb := vsym.I64("seqb")
	ea := lEncodeListKey(a.t, a.k, sa)
	eb := lEncodeListKey(b.t, b.k, sb)
	if len(ea) == len(eb) {
		same := vsym.And(c12SameTK(a, b), sa == sb)
		vsym.Assert(vsym.Implies(vsym.BytesEq(ea, eb), same), "lEncodeListKey injective")
	}
	t2, k2, s2, err := lDecodeListKey(ea)
	vsym.Assert(err == nil, "lDecodeListKey accepts encoded key")
	vsym.Assert(vsym.BytesEq(t2, a.t), "decoded table")
	vsym.Assert(vsym.BytesEq(k2, a.k), "decoded key")
	vsym.Assert(s2 == sa, "decoded seq")
	// range used by lclear / ltrim: [listMinSeq, listMaxSeq] of this key
	lo := lEncodeListKey(a.t, a.k, listMinSeq)
	hi := lEncodeListKey(a.t, a.k, listMaxSeq)
	inRange := vsym.And(c12LE(lo, eb), c12LE(eb, hi))
	vsym.Assert(vsym.Implies(inRange, c12SameTK(a, b)), "only elements of the same list fall into its seq range")
	vsym.Reach("end")
}

// KV keys: table:key packing. Within the precondition the code enforces (table has no ':'),
// distinct (table,key) give distinct db keys and the table data range contains exactly the table's keys.
func Verif_C12_KVKey() {
	a := c12Sym("a")
	b := c12Sym("b")
	vsym.Assume(bytes.IndexByte(a.t, ':') == -1)
	vsym.Assume(bytes.IndexByte(b.t, ':') == -1)
	ra := packRedisKey(a.t, a.k)
	rb := packRedisKey(b.t, b.k)
	ta, ka, err := extractTableFromRedisKey(ra)
	vsym.Assert(err == nil, "extract ok")
	vsym.Assert(vsym.BytesEq(ta, a.t), "extracted table")
	vsym.Assert(vsym.BytesEq(ka, a.k), "extracted key")
	ea := encodeKVKey(ra)
	eb := encodeKVKey(rb)
	if len(ea) == len(eb) {
		vsym.Assert(vsym.Implies(vsym.BytesEq(ea, eb), c12SameTK(a, b)), "kv key injective")
	}
	d, err := decodeKVKey(ea)
	vsym.Assert(err == nil, "decodeKVKey ok")
	vsym.Assert(vsym.BytesEq(d, ra), "decodeKVKey round trip")
	// table range
	start := encodeDataTableStart(KVType, a.t)
	end := encodeDataTableEnd(KVType, a.t)
	vsym.Assert(c12LE(start, ea), "table start <= key")
	vsym.Assert(vsym.BytesLess(ea, end), "key < table end")
	inRange := vsym.And(c12LE(start, eb), vsym.BytesLess(eb, end))
	sameT := false
	if len(a.t) == len(b.t) {
		sameT = vsym.BytesEq(a.t, b.t)
	}
	vsym.Assert(vsym.Implies(inRange, sameT), "kv table range holds only this table's keys")
	vsym.Reach("end")
}

// size/meta keys: injective per type and disjoint across types (first byte).
func Verif_C12_MetaKeys() {
	ka := vsym.Bytes("ka", vsym.Choose("kalen", 4))
	kb := vsym.Bytes("kb", vsym.Choose("kblen", 4))
	encs := []func([]byte) []byte{hEncodeSizeKey, sEncodeSizeKey, zEncodeSizeKey, lEncodeMetaKey, bitEncodeMetaKey, encodeKVKey, encodeTableMetaKey}
	decs := []func([]byte) ([]byte, error){hDecodeSizeKey, sDecodeSizeKey, zDecodeSizeKey, lDecodeMetaKey, bitDecodeMetaKey, decodeKVKey, decodeTableMetaKey}
	i := vsym.Choose("enci", len(encs))
	j := vsym.Choose("encj", len(encs))
	ea := encs[i](ka)
	eb := encs[j](kb)
	if len(ea) == len(eb) {
		same := false
		if i == j && len(ka) == len(kb) {
			same = vsym.BytesEq(ka, kb)
		}
		vsym.Assert(vsym.Implies(vsym.BytesEq(ea, eb), same), "meta/size keys injective across types and keys")
	}
	d, err := decs[i](ea)
	vsym.Assert(err == nil, "meta key decodes")
	vsym.Assert(vsym.BytesEq(d, ka), "meta key round trip")
	vsym.Reach("end")
}

// table data ranges of the length-prefixed types: contain exactly the keys of the table.
func Verif_C12_TableRange() {
	dts := []byte{HashType, SetType, ZSetType, ListType}
	dt := dts[vsym.Choose("dt", len(dts))]
	a := c12Sym("a")
	b := c12Sym("b")
	start := encodeDataTableStart(dt, a.t)
	end := encodeDataTableEnd(dt, a.t)
	var ea, eb []byte
	if dt == ListType {
		ea = lEncodeListKey(a.t, a.k, vsym.I64("sa"))
		eb = lEncodeListKey(b.t, b.k, vsym.I64("sb"))
	} else {
		ea = encodeCollSubKey(dt, a.t, a.k, a.f)
		eb = encodeCollSubKey(dt, b.t, b.k, b.f)
	}
	vsym.Assert(c12LE(start, ea), "table start <= own key")
	vsym.Assert(vsym.BytesLess(ea, end), "own key < table end")
	inRange := vsym.And(c12LE(start, eb), vsym.BytesLess(eb, end))
	sameT := false
	if len(a.t) == len(b.t) {
		sameT = vsym.BytesEq(a.t, b.t)
	}
	vsym.Assert(vsym.Implies(inRange, sameT), "table range holds only this table's keys")
	vsym.Reach("end")
}

// ---- K4: memcomparable codec ----

var c12ByteLens = []int{0, 1, 2, 7, 8, 9, 16, 17}

// bytes: round trip and order preservation, crossing two 8-byte group boundaries.
func Verif_C12_MemCmp_Bytes() {
	la := c12ByteLens[vsym.Choose("la", len(c12ByteLens))]
	lb := c12ByteLens[vsym.Choose("lb", len(c12ByteLens))]
	a := vsym.Bytes("a", la)
	b := vsym.Bytes("b", lb)
	ea, err := EncodeMemCmpKey(nil, a)
	vsym.Assert(err == nil, "encode a")
	eb, err := EncodeMemCmpKey(nil, b)
	vsym.Assert(err == nil, "encode b")
	vals, err := Decode(ea, 1)
	vsym.Assert(err == nil, "decode")
	vsym.Assert(len(vals) == 1, "one value")
	da, ok := vals[0].([]byte)
	vsym.Assert(ok, "decoded type is bytes")
	vsym.Assert(len(da) == la, "decoded length")
	vsym.Assert(vsym.BytesEq(da, a), "decoded bytes")
	// order: a < b  <=>  enc(a) < enc(b)
	vsym.Assert(vsym.BytesLess(a, b) == vsym.BytesLess(ea, eb), "bytes codec preserves order")
	if la == lb {
		vsym.Assert(vsym.BytesEq(a, b) == vsym.BytesEq(ea, eb), "bytes codec injective")
	} else if len(ea) == len(eb) {
		vsym.Assert(!vsym.BytesEq(ea, eb), "different lengths never collide")
	}
	vsym.Reach("end")
}

func Verif_C12_MemCmp_Int() {
	a := vsym.I64("a")
	b := vsym.I64("b")
	ea, _ := EncodeMemCmpKey(nil, a)
	eb, _ := EncodeMemCmpKey(nil, b)
	vals, err := Decode(ea, 1)
	vsym.Assert(err == nil, "decode")
	da, ok := vals[0].(int64)
	vsym.Assert(ok, "decoded type is int64")
	vsym.Assert(da == a, "int round trip")
	vsym.Assert((a < b) == vsym.BytesLess(ea, eb), "int codec preserves order")
	// the small int types used for separators take the same path
	s := vsym.I32("sep")
	es, _ := EncodeMemCmpKey(nil, s)
	es2, _ := EncodeMemCmpKey(nil, int64(s))
	vsym.Assert(vsym.BytesEq(es, es2), "int32 encodes as its int64 value")
	vsym.Reach("end")
}

func Verif_C12_MemCmp_Float() {
	a := vsym.F64("a")
	b := vsym.F64("b")
	vsym.Assume(a == a) // not NaN
	vsym.Assume(b == b)
	ea, _ := EncodeMemCmpKey(nil, a)
	eb, _ := EncodeMemCmpKey(nil, b)
	vals, err := Decode(ea, 1)
	vsym.Assert(err == nil, "decode")
	da, ok := vals[0].(float64)
	vsym.Assert(ok, "decoded type is float64")
	vsym.Assert(da == a, "float round trip (IEEE equality, so -0 == +0)")
	vsym.Assert((a < b) == vsym.BytesLess(ea, eb), "float codec preserves order")
	vsym.Assert((a == b) == vsym.BytesEq(ea, eb), "float codec: equal floats, equal bytes")
	vsym.Reach("end")
}

// the composite versioned key (key, sep, version, sep) used for every collection under wait_compact.
func Verif_C12_VerKey() {
	la := vsym.Choose("la", 4)
	lb := vsym.Choose("lb", 4)
	ka := vsym.Bytes("ka", la)
	kb := vsym.Bytes("kb", lb)
	va := vsym.I64("va")
	vb := vsym.I64("vb")
	ea := encodeVerKey(&headerMetaValue{ValueVersion: va}, ka)
	eb := encodeVerKey(&headerMetaValue{ValueVersion: vb}, kb)
	k2, v2, err := decodeVerKey(ea)
	vsym.Assert(err == nil, "decodeVerKey ok")
	vsym.Assert(vsym.BytesEq(k2, ka), "verkey key round trip")
	vsym.Assert(v2 == va, "verkey version round trip")
	if len(ea) == len(eb) {
		same := va == vb
		if la != lb {
			same = false
		} else {
			same = vsym.And(same, vsym.BytesEq(ka, kb))
		}
		vsym.Assert(vsym.Implies(vsym.BytesEq(ea, eb), same), "verkey injective in (key, version)")
	}
	// no versioned key is a proper prefix of another one (sub-key ranges are built by appending to it)
	if len(ea) < len(eb) {
		vsym.Assert(!vsym.BytesEq(ea, eb[:len(ea)]), "verkey is prefix free")
	}
	vsym.Reach("end")
}

// zset score index keys: round trip, injective, ordered by (score, member) inside one (table,key),
// and confined to [zEncodeStartKey, zEncodeStopKey).
func Verif_C12_ZScoreKey() {
	a := c12Sym("a")
	b := c12Sym("b")
	sa := vsym.F64("sa")
	sb := vsym.F64("sb")
	vsym.Assume(sa == sa)
	vsym.Assume(sb == sb)
	ea := zEncodeScoreKey(false, false, a.t, a.k, a.f, sa)
	eb := zEncodeScoreKey(false, false, b.t, b.k, b.f, sb)
	t2, k2, m2, s2, err := zDecodeScoreKey(ea)
	vsym.Assert(err == nil, "zDecodeScoreKey ok")
	vsym.Assert(vsym.BytesEq(t2, a.t), "table")
	vsym.Assert(vsym.BytesEq(k2, a.k), "key")
	vsym.Assert(vsym.BytesEq(m2, a.f), "member")
	vsym.Assert(s2 == sa, "score")
	if len(ea) == len(eb) {
		vsym.Assert(vsym.Implies(vsym.BytesEq(ea, eb), vsym.And(c12Same(a, b), sa == sb)), "score key injective")
	}
	start := zEncodeStartKey(a.t, a.k)
	stop := zEncodeStopKey(a.t, a.k)
	vsym.Assert(vsym.BytesLess(start, ea), "zset start < own score key")
	vsym.Assert(vsym.BytesLess(ea, stop), "own score key < zset stop")
	inRange := vsym.And(c12LE(start, eb), vsym.BytesLess(eb, stop))
	vsym.Assert(vsym.Implies(inRange, c12SameTK(a, b)), "only score keys of the same zset fall into its range")
	// within one zset: order by score, then member
	if len(a.t) == len(b.t) && len(a.k) == len(b.k) {
		vsym.Assume(c12SameTK(a, b))
		lt := vsym.Or(sa < sb, vsym.And(sa == sb, vsym.BytesLess(a.f, b.f)))
		vsym.Assert(vsym.Implies(lt, vsym.BytesLess(ea, eb)), "score keys sort by (score, member)")
		// score range bounds used by ZRANGEBYSCORE
		lo := zEncodeStartScoreKey(a.t, a.k, sa)
		hi := zEncodeStopScoreKey(a.t, a.k, sa)
		vsym.Assert(vsym.And(c12LE(lo, ea), vsym.BytesLess(ea, hi)), "member key inside its score's [start,stop)")
		vsym.Assert(vsym.Implies(sb < sa, vsym.BytesLess(eb, lo)), "lower scores sort before the score's start key")
		vsym.Assert(vsym.Implies(sa < sb, vsym.BytesLess(hi, eb)), "higher scores sort after the score's stop key")
	}
	vsym.Reach("end")
}

func Verif_C12_BitmapKey() {
	a := c12Sym("a")
	b := c12Sym("b")
	ia := vsym.I64("ia")
	ib := vsym.I64("ib")
	ea, err := encodeBitmapKey(a.t, a.k, ia)
	vsym.Assert(err == nil, "encode")
	eb, _ := encodeBitmapKey(b.t, b.k, ib)
	t2, k2, i2, err := decodeBitmapKey(ea)
	vsym.Assert(err == nil, "decode")
	vsym.Assert(vsym.BytesEq(t2, a.t), "table")
	vsym.Assert(vsym.BytesEq(k2, a.k), "key")
	vsym.Assert(i2 == ia, "index")
	if len(ea) == len(eb) {
		vsym.Assert(vsym.Implies(vsym.BytesEq(ea, eb), vsym.And(c12SameTK(a, b), ia == ib)), "bitmap key injective")
	}
	start, _ := encodeBitmapStartKey(a.t, a.k, 0)
	stop, _ := encodeBitmapStopKey(a.t, a.k)
	vsym.Assume(ia >= 0)
	vsym.Assume(ib >= 0)
	vsym.Assert(vsym.And(c12LE(start, ea), vsym.BytesLess(ea, stop)), "bitmap segment inside [start,stop)")
	inRange := vsym.And(c12LE(start, eb), vsym.BytesLess(eb, stop))
	vsym.Assert(vsym.Implies(inRange, c12SameTK(a, b)), "only segments of the same bitmap fall into its range")
	vsym.Reach("end")
}

// ---- range operations touch exactly the addressed collection ----
//
// Whole-collection clears switch to engine range deletes when the *stored size* exceeds RangeDeleteNum
// (5000). Whether that branch is taken depends on the stored size only, so it is exercised here on a
// collection of one real element whose stored size was raised by RangeDeleteNum through the real size
// helper (an abstraction of "5000 further elements somewhere inside the collection's range"): whatever the
// clear deletes outside the addressed collection in this state it also deletes from a really large one.

func c12Put(db *RockDB, typ int, key, member []byte, ts int64) {
	var err error
	switch typ {
	case 0:
		_, err = db.HSet(ts, false, key, member, []byte("v"))
	case 1:
		_, err = db.SAdd(ts, key, member)
	case 2:
		_, err = db.ZAdd(ts, key, common.ScorePair{Score: 1, Member: member})
	default:
		_, err = db.RPush(ts, key, member)
	}
	vsym.Assert(err == nil, "setup write")
}

func c12Count(db *RockDB, typ int, key []byte) int64 {
	var n int64
	var err error
	switch typ {
	case 0:
		var all []common.KVRecordRet
		_, all, err = db.HGetAll(key)
		n = int64(len(all))
	case 1:
		var ms [][]byte
		ms, err = db.SMembers(key)
		n = int64(len(ms))
	case 2:
		var all []common.ScorePair
		all, err = db.ZRange(key, 0, -1)
		n = int64(len(all))
		if err == nil {
			// the member -> score index must survive as well
			for _, sp := range all {
				_, e2 := db.ZScore(key, sp.Member)
				vsym.Assert(e2 == nil, "member of an untouched zset still has its score entry")
			}
		}
	default:
		var es [][]byte
		es, err = db.LRange(key, 0, -1)
		n = int64(len(es))
	}
	vsym.Assert(err == nil, "enumeration ok")
	return n
}

func Verif_C12_ClearIsolation() {
	policy := []common.ExpirationPolicy{common.WaitCompact, common.LocalDeletion}[vsym.Choose("policy", 2)]
	v := vOpenDBPolicy(policy)
	defer v.done()
	db := v.db
	typ := vsym.Choose("type", 4)
	ts := int64(1700000000) * 1e9
	key := []byte("t:k")
	// neighbours in the same table: a longer key with the addressed key as prefix, keys sorting just before and
	// after it, and the same key in a table whose name has the addressed table as prefix
	b := vsym.U8("suffix")
	vsym.Assume(b != ':') // "t:k:" is in the list below already
	victims := [][]byte{append([]byte("t:k"), b), []byte("t:j"), []byte("t:l"), []byte("tt:k"), []byte("t:k:")}
	c12Put(db, typ, key, []byte("m"), ts)
	for _, vk := range victims {
		c12Put(db, typ, vk, []byte("m"), ts)
		c12Put(db, typ, vk, []byte("n"), ts)
	}
	if vsym.Choose("large", 2) == 1 {
		// raise the stored size above RangeDeleteNum with the real size helpers
		wb := db.rockEng.NewWriteBatch()
		switch typ {
		case 0:
			ki, err := db.prepareHashKeyForWrite(ts, key, nil)
			vsym.Assert(err == nil, "header")
			_, err = db.hIncrSize(key, ki.OldHeader, RangeDeleteNum+1, wb)
			vsym.Assert(err == nil, "hIncrSize")
		case 1:
			ki, err := db.prepareCollKeyForWrite(ts, SetType, key, nil)
			vsym.Assert(err == nil, "header")
			_, err = db.sIncrSize(ts, key, ki.OldHeader, RangeDeleteNum+1, wb)
			vsym.Assert(err == nil, "sIncrSize")
		case 2:
			ki, err := db.prepareCollKeyForWrite(ts, ZSetType, key, nil)
			vsym.Assert(err == nil, "header")
			_, err = db.zIncrSize(ts, key, ki.OldHeader, RangeDeleteNum+1, wb)
			vsym.Assert(err == nil, "zIncrSize")
		default:
			ki, head, tail, _, _, err := db.lHeaderAndMeta(ts, key, false)
			vsym.Assert(err == nil, "list meta")
			_, err = db.lSetMeta(key, ki.OldHeader, head, tail+RangeDeleteNum+1, ts, wb)
			vsym.Assert(err == nil, "lSetMeta")
		}
		vsym.Assert(db.rockEng.Write(wb) == nil, "commit raised size")
	}
	var err error
	switch typ {
	case 0:
		_, err = db.HClear(ts+1, key)
	case 1:
		_, err = db.SClear(ts+1, key)
	case 2:
		_, err = db.ZClear(ts+1, key)
	default:
		_, err = db.LClear(ts+1, key)
	}
	vsym.Assert(err == nil, "clear succeeds")
	vsym.Assert(c12Count(db, typ, key) == 0, "the addressed collection is empty after its clear")
	for _, vk := range victims {
		vsym.Assert(c12Count(db, typ, vk) == 2, "a clear leaves every other collection complete (prefix keys, neighbours, other tables)")
	}
	vsym.Reach("end")
}

// Index build isolation: rebuilding a hash index of table T reads only T's hashes and indexes only T's
// primary keys - also when another table's name extends T by bytes that sort on either side of ':'.
// dobuildIndexes forks one goroutine per table and joins them: executed as one schedule (inline).
func Verif_C12_IndexBuildIsolation() {
	vsym.InlineGoroutines()
	v := vOpenDB()
	defer v.done()
	ts := int64(1700000000) * 1e9
	b := vsym.U8("suffix")
	vsym.Assume(b != ':')
	other := append([]byte{'t', b}, []byte(":a")...) // key "a" of table "t<b>"
	field := []byte("f")
	_, err := v.db.HSet(ts, false, []byte("t:a"), field, []byte("1"))
	vsym.Assert(err == nil, "HSET t:a")
	_, err = v.db.HSet(ts, false, other, field, []byte("1"))
	vsym.Assert(err == nil, "HSET t<b>:a")
	if vsym.Choose("third", 2) == 1 {
		_, err = v.db.HSet(ts, false, []byte("t:b"), field, []byte("2"))
		vsym.Assert(err == nil, "HSET t:b")
	}
	hindex := &HsetIndex{Table: []byte("t")}
	hindex.Name = []byte("i")
	hindex.IndexField = field
	hindex.ValueType = StringV
	hindex.State = BuildingIndex
	c := NewIndexContainer()
	c.hsetIndexes[string(field)] = hindex
	v.db.indexMgr.tableIndexes["t"] = c
	v.db.indexMgr.dobuildIndexes(v.db, make(chan struct{}))
	vsym.Assert(hindex.State == BuildDoneIndex, "the build finishes")
	it, err := v.db.NewDBRangeIterator(encodeHsetIndexStartKey(hindex.Table, hindex.Name), encodeHsetIndexStopKey(hindex.Table, hindex.Name), common.RangeROpen, false)
	vsym.Assert(err == nil, "iterator")
	defer it.Close() // runs before the deferred close of the store, also when an assertion fails natively
	n := 0
	for ; it.Valid(); it.Next() {
		_, _, _, pk, derr := decodeHsetIndexStringKey(it.Key())
		vsym.Assert(derr == nil, "index key decodes")
		vsym.Assert(len(pk) == 3 && pk[0] == 't' && pk[1] == ':', "the index of table t holds only primary keys of table t")
		n++
		if n > 4 {
			break
		}
	}
	vsym.Reach("end")
}
