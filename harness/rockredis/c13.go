//go:build verif

package rockredis

import (
	"bytes"

	"github.com/youzan/ZanRedisDB/common"
	"vsym"
)

// C13 - cursor scans return every element exactly once, in order (per store / per partition).
// The page loop a client runs: feed the last returned element back as cursor until a short page.
// Forward scans start at the empty cursor or at any cursor; reverse scans start at a given cursor (the
// documented behaviour: a reverse scan returns the elements strictly below its cursor).

func c13Members() [][]byte {
	// 0..3 member names in strictly increasing order: 1 symbolic byte each, the last one optionally an
	// extension of the first (names that are prefixes of each other)
	n := vsym.Choose("nmembers", 4)
	var ms [][]byte
	for i := 0; i < n; i++ {
		var m []byte
		if i == 1 && vsym.Choose("extends", 2) == 1 {
			m = append(append([]byte{}, ms[0]...), vsym.U8("ext"))
		} else {
			m = vsym.Bytes("member", 1)
		}
		if i > 0 {
			vsym.Assume(vsym.BytesLess(ms[i-1], m))
		}
		ms = append(ms, m)
	}
	return ms
}

func c13Expected(ms [][]byte, cursor []byte, reverse bool) [][]byte {
	var out [][]byte
	if !reverse {
		for _, m := range ms {
			if len(cursor) == 0 || bytes.Compare(m, cursor) > 0 {
				out = append(out, m)
			}
		}
		return out
	}
	for i := len(ms) - 1; i >= 0; i-- {
		if bytes.Compare(ms[i], cursor) < 0 {
			out = append(out, ms[i])
		}
	}
	return out
}

func c13Same(got, want [][]byte, what string) {
	vsym.Assert(len(got) == len(want), what+": every element exactly once (count)")
	for i := range got {
		if i < len(want) {
			vsym.Assert(len(got[i]) == len(want[i]) && vsym.BytesEq(got[i], want[i]), what+": every element exactly once, in order")
		}
	}
}

// HSCAN / SSCAN / ZSCAN over one collection, neighbours present.
func Verif_C13_CollectionScan() {
	v := vOpenDB()
	defer v.done()
	db := v.db
	ts := int64(1700000000) * 1e9
	key := []byte("t:k")
	typ := vsym.Choose("type", 3)
	ms := c13Members()
	// neighbours that must never show up: same table, key extending / preceding ours, and the same key in another table
	others := [][]byte{[]byte("t:k\x00"), []byte("t:k:"), []byte("t:j"), []byte("t2:k")}
	other := others[vsym.Choose("neighbour", len(others))]
	add := func(k, m []byte) {
		var err error
		switch typ {
		case 0:
			_, err = db.HSet(ts, false, k, m, []byte("v"))
		case 1:
			_, err = db.SAdd(ts, k, m)
		default:
			_, err = db.ZAdd(ts, k, common.ScorePair{Score: 1, Member: m})
		}
		vsym.Assert(err == nil, "populate")
	}
	for _, m := range ms {
		add(key, m)
	}
	add(other, []byte("zz"))
	add(other, []byte{0})
	reverse := vsym.Choose("reverse", 2) == 1
	count := 1 + vsym.Choose("count", 2)
	var cursor []byte
	if reverse || vsym.Choose("startcursor", 2) == 1 {
		cursor = vsym.Bytes("cursor", 1+vsym.Choose("cursorlen", 2))
	}
	want := c13Expected(ms, cursor, reverse)
	match := ""
	var got [][]byte
	done := false
	for round := 0; round < len(ms)+2 && !done; round++ {
		var page [][]byte
		switch typ {
		case 0:
			r, err := db.HScan(key, cursor, count, match, reverse)
			vsym.Assert(err == nil, "HSCAN")
			for _, kv := range r {
				page = append(page, kv.Key)
			}
		case 1:
			r, err := db.SScan(key, cursor, count, match, reverse)
			vsym.Assert(err == nil, "SSCAN")
			page = r
		default:
			r, err := db.ZScan(key, cursor, count, match, reverse)
			vsym.Assert(err == nil, "ZSCAN")
			for _, sp := range r {
				page = append(page, sp.Member)
			}
		}
		vsym.Assert(len(page) <= count, "a page holds at most COUNT elements")
		got = append(got, page...)
		if len(page) < count {
			done = true // the command layer returns the empty cursor
		} else {
			cursor = page[len(page)-1]
		}
	}
	vsym.Assert(done, "the iteration terminates")
	c13Same(got, want, "collection scan")
	vsym.Reach("end")
}

// SCAN over the keys of one type: the store-level scan does not stop at the table end (the command layer
// cuts there, see harness/node/c13.go), so here: every key of the type from the cursor on, once, in order,
// and no key of another type.
func Verif_C13_KeyScan() {
	v := vOpenDB()
	defer v.done()
	db := v.db
	ts := int64(1700000000) * 1e9
	dts := []common.DataType{common.KV, common.HASH, common.SET, common.ZSET, common.LIST}
	di := vsym.Choose("type", len(dts))
	put := func(i int, k []byte) {
		var err error
		switch i {
		case 0:
			err = db.KVSet(ts, k, []byte("v"))
		case 1:
			_, err = db.HSet(ts, false, k, []byte("f"), []byte("v"))
		case 2:
			_, err = db.SAdd(ts, k, []byte("m"))
		case 3:
			_, err = db.ZAdd(ts, k, common.ScorePair{Score: 1, Member: []byte("m")})
		default:
			_, err = db.RPush(ts, k, []byte("e"))
		}
		vsym.Assert(err == nil, "populate")
	}
	ms := c13Members()
	var keys [][]byte
	for _, m := range ms {
		k := append([]byte("t:"), m...)
		keys = append(keys, k)
		put(di, k)
	}
	// the same names under every other type
	for j := range dts {
		if j != di {
			put(j, []byte("t:x"))
			if len(keys) > 0 {
				put(j, keys[0])
			}
		}
	}
	reverse := vsym.Choose("reverse", 2) == 1
	count := 1 + vsym.Choose("count", 2)
	cursor := []byte("t:")
	if reverse {
		cursor = []byte("t;") // just above every key of table t
	}
	var want [][]byte
	if !reverse {
		want = keys
	} else {
		for i := len(keys) - 1; i >= 0; i-- {
			want = append(want, keys[i])
		}
	}
	var got [][]byte
	done := false
	for round := 0; round < len(keys)+2 && !done; round++ {
		page, err := db.Scan(dts[di], cursor, count, "", reverse)
		vsym.Assert(err == nil, "SCAN")
		vsym.Assert(len(page) <= count, "a page holds at most COUNT keys")
		got = append(got, page...)
		if len(page) < count {
			done = true
		} else {
			cursor = page[len(page)-1]
		}
	}
	vsym.Assert(done, "the iteration terminates")
	c13Same(got, want, "key scan")
	vsym.Reach("end")
}


// MATCH: with a glob the iteration returns exactly the matching subset (forward, from the empty cursor).
// The real gobwas/glob matcher is compiled and executed; member names are ASCII here.
func Verif_C13_CollectionScan_Match() {
	v := vOpenDB()
	defer v.done()
	db := v.db
	ts := int64(1700000000) * 1e9
	key := []byte("t:k")
	typ := vsym.Choose("type", 3)
	n := 1 + vsym.Choose("nmembers", 3)
	var ms [][]byte
	for i := 0; i < n; i++ {
		m := vsym.Bytes("member", 1)
		vsym.Assume(m[0] < 0x80)
		if i > 0 {
			vsym.Assume(m[0] > ms[i-1][0])
		}
		ms = append(ms, m)
		var err error
		switch typ {
		case 0:
			_, err = db.HSet(ts, false, key, m, []byte("v"))
		case 1:
			_, err = db.SAdd(ts, key, m)
		default:
			_, err = db.ZAdd(ts, key, common.ScorePair{Score: 1, Member: m})
		}
		vsym.Assert(err == nil, "populate")
	}
	var want [][]byte
	for _, m := range ms {
		if m[0] >= 'a' && m[0] <= 'm' {
			want = append(want, m)
		}
	}
	count := 1 + vsym.Choose("count", 2)
	var cursor []byte
	var got [][]byte
	done := false
	for round := 0; round < n+2 && !done; round++ {
		var page [][]byte
		switch typ {
		case 0:
			r, err := db.HScan(key, cursor, count, "[a-m]*", false)
			vsym.Assert(err == nil, "HSCAN")
			for _, kv := range r {
				page = append(page, kv.Key)
			}
		case 1:
			r, err := db.SScan(key, cursor, count, "[a-m]*", false)
			vsym.Assert(err == nil, "SSCAN")
			page = r
		default:
			r, err := db.ZScan(key, cursor, count, "[a-m]*", false)
			vsym.Assert(err == nil, "ZSCAN")
			for _, sp := range r {
				page = append(page, sp.Member)
			}
		}
		got = append(got, page...)
		if len(page) < count {
			done = true // the command layer returns the empty cursor
		} else {
			cursor = page[len(page)-1]
		}
	}
	vsym.Assert(done, "the iteration terminates")
	c13Same(got, want, "scan with MATCH")
	vsym.Reach("end")
}
