//go:build verif

package rockredis

import (
	"time"

	"github.com/youzan/ZanRedisDB/common"
	"vsym"
)

// c10ClockNotBehind: reads evaluate expiry against the local clock; it is assumed not to be behind the log
// timestamp of the last applied write (the environment clock is a non-decreasing symbolic sequence).
func c10ClockNotBehind(ts int64) {
	vsym.Assume(time.Now().UnixNano() >= ts)
}

// C10 - expired data is dead; unexpired data is never removed (wait_compact policy).

const c10T0 = int64(1700000000) * 1e9 // log time of the pre-state writes (a whole second)

// c10Expired returns a symbolic duration d and a symbolic log timestamp at which a key written at c10T0
// with TTL d is expired (ts/1e9 >= t0/1e9 + d), possibly exactly at the expiry second.
func c10Expired() (d int64, ts int64) {
	d = vsym.I64("ttl")
	vsym.Assume(d >= 1 && d <= 3)
	ts = vsym.I64("ts")
	vsym.Assume(ts >= c10T0 && ts < c10T0+int64(10e9))
	vsym.Assume(ts/int64(1e9) >= c10T0/int64(1e9)+d)
	return
}

// c10Alive: same, but the key is not yet expired at ts (possibly one nanosecond before the expiry second).
func c10Alive() (d int64, ts int64) {
	d = vsym.I64("ttl")
	vsym.Assume(d >= 1 && d <= 3)
	ts = vsym.I64("ts")
	vsym.Assume(ts >= c10T0 && ts < c10T0+int64(10e9))
	vsym.Assume(ts/int64(1e9) < c10T0/int64(1e9)+d)
	return
}

func c10SameBytes(a, b []byte) bool {
	if (a == nil) != (b == nil) || len(a) != len(b) {
		return false
	}
	return vsym.BytesEq(a, b)
}

// X1 (KV): a write that builds on an expired value behaves as on an absent key.
func Verif_C10_X1_KV_ExpiredIsAbsent() {
	a, b := vOpenDB(), vOpenDB()
	defer a.done()
	defer b.done()
	key := []byte("t:k")
	old := vsym.Bytes("old", 1+vsym.Choose("oldlen", 2))
	d, ts := c10Expired()
	vsym.Assert(a.db.SetEx(c10T0, key, d, old) == nil, "pre-state SETEX")
	cmd := vsym.Choose("cmd", 8)
	arg := vsym.Bytes("arg", 1)
	off := 0
	if cmd == 1 {
		off = vsym.Choose("offset", 3)
	}
	run := func(db *RockDB) (int64, []byte, error) {
		switch cmd {
		case 0:
			n, err := db.Append(ts, key, arg)
			return n, nil, err
		case 1:
			n, err := db.SetRange(ts, key, off, arg)
			return n, nil, err
		case 2:
			n, err := db.Incr(ts, key)
			return n, nil, err
		case 3:
			n, err := db.SetNX(ts, key, arg)
			return n, nil, err
		case 4:
			v, err := db.KVGetSet(ts, key, arg)
			return 0, v, err
		case 5:
			return 0, nil, db.KVSet(ts, key, arg)
		case 6:
			n, err := db.Expire(ts, key, 100)
			return n, nil, err
		default:
			n, err := db.Persist(ts, key)
			return n, nil, err
		}
	}
	na, va, ea := run(a.db)
	nb, vb, eb := run(b.db)
	vsym.Assert((ea == nil) == (eb == nil), "expired = absent: same success/error")
	vsym.Assert(na == nb, "expired = absent: same integer reply")
	vsym.Assert(c10SameBytes(va, vb), "expired = absent: same bulk reply")
	c10ClockNotBehind(ts)
	ga, err := a.db.KVGet(key)
	vsym.Assert(err == nil, "GET ok")
	gb, err := b.db.KVGet(key)
	vsym.Assert(err == nil, "GET ok")
	vsym.Assert(c10SameBytes(ga, gb), "expired = absent: same value afterwards (nothing of the expired value survives, no stale expiry hides the new value)")
	ta, _ := a.db.KVTtl(key)
	tb, _ := b.db.KVTtl(key)
	vsym.Assert(ta == tb, "expired = absent: same TTL afterwards")
	vsym.Reach("end")
}

// X2 (KV): before its expiry time a key is fully visible; overwriting commands and PERSIST clear the expiry,
// modifying commands keep it.
func Verif_C10_X2_KV_AliveBeforeExpiry() {
	a := vOpenDB()
	defer a.done()
	key := []byte("t:k")
	old := []byte{'1'}
	d, ts := c10Alive()
	vsym.Assert(a.db.SetEx(c10T0, key, d, old) == nil, "pre-state SETEX")
	h0 := a.kvHeader(key)
	vsym.Assert(h0 != nil && int64(h0.ExpireAt) == c10T0/int64(1e9)+d, "SETEX stores log seconds + duration")
	cmd := vsym.Choose("cmd", 6)
	arg := vsym.Bytes("arg", 1)
	switch cmd {
	case 0:
		n, err := a.db.Append(ts, key, arg)
		vsym.Assert(err == nil && n == 2, "APPEND sees the unexpired value")
	case 1:
		n, err := a.db.Incr(ts, key)
		vsym.Assert(err == nil && n == 2, "INCR sees the unexpired value")
	case 2:
		n, err := a.db.SetNX(ts, key, arg)
		vsym.Assert(err == nil && n == 0, "SETNX sees the unexpired key")
	case 3:
		v, err := a.db.KVGetSet(ts, key, arg)
		vsym.Assert(err == nil && c10SameBytes(v, old), "GETSET returns the unexpired value")
	case 4:
		vsym.Assert(a.db.KVSet(ts, key, arg) == nil, "SET ok")
	case 5:
		n, err := a.db.Persist(ts, key)
		vsym.Assert(err == nil && n == 1, "PERSIST on a key with expiry")
	}
	h1 := a.kvHeader(key)
	vsym.Assert(h1 != nil, "nothing deletes the unexpired key")
	if h1 != nil {
		switch cmd {
		case 0, 1, 2:
			vsym.Assert(h1.ExpireAt == h0.ExpireAt, "modifying commands keep the expiry")
		default:
			vsym.Assert(h1.ExpireAt == 0, "overwriting commands and PERSIST clear the expiry")
		}
	}
	vsym.Reach("end")
}

// kvHeader decodes the stored header of a KV key (nil if absent).
func (v *vDB) kvHeader(key []byte) *headerMetaValue {
	_, rk, _ := extractTableFromRedisKey(key)
	_ = rk
	raw := v.rawGet(encodeKVKey(key))
	if raw == nil {
		return nil
	}
	h, err := v.db.expiration.decodeRawValue(KVType, raw)
	if err != nil {
		panic(err)
	}
	return h
}

// X1 (collections): a write on an expired collection starts from empty and never shows old members.
func Verif_C10_X1_Coll_ExpiredIsAbsent() {
	a, b := vOpenDB(), vOpenDB()
	defer a.done()
	defer b.done()
	key := []byte("t:k")
	oldm := vsym.Bytes("oldmember", 1)
	newm := vsym.Bytes("newmember", 1)
	d, ts := c10Expired()
	typ := vsym.Choose("type", 4)
	var n int64
	var err error
	switch typ {
	case 0: // hash
		_, err = a.db.HSet(c10T0, false, key, oldm, []byte{'1'})
		vsym.Assert(err == nil, "pre HSET")
		n, err = a.db.HExpire(c10T0, key, d)
		vsym.Assert(err == nil && n == 1, "pre HEXPIRE")
		na, ea := a.db.HSet(ts, false, key, newm, []byte{'2'})
		nb, eb := b.db.HSet(ts, false, key, newm, []byte{'2'})
		vsym.Assert(ea == nil && eb == nil && na == nb, "HSET on expired hash = HSET on absent hash")
		c10ClockNotBehind(ts)
		la, _ := a.db.HLen(key)
		lb, _ := b.db.HLen(key)
		vsym.Assert(la == lb, "hash: same size afterwards")
		_, alla, _ := a.db.HGetAll(key)
		vsym.Assert(int64(len(alla)) == la, "hash: enumeration agrees with size")
		for _, r := range alla {
			vsym.Assert(vsym.BytesEq(r.Rec.Key, newm), "hash: no field of the expired predecessor is visible")
		}
		ta, _ := a.db.HashTtl(key)
		vsym.Assert(ta == -1, "hash: the re-created hash has no expiry")
	case 1: // set
		_, err = a.db.SAdd(c10T0, key, oldm)
		vsym.Assert(err == nil, "pre SADD")
		n, err = a.db.SExpire(c10T0, key, d)
		vsym.Assert(err == nil && n == 1, "pre SEXPIRE")
		na, ea := a.db.SAdd(ts, key, newm)
		nb, eb := b.db.SAdd(ts, key, newm)
		vsym.Assert(ea == nil && eb == nil && na == nb, "SADD on expired set = SADD on absent set")
		c10ClockNotBehind(ts)
		la, _ := a.db.SCard(key)
		lb, _ := b.db.SCard(key)
		vsym.Assert(la == lb, "set: same size afterwards")
		ms, _ := a.db.SMembers(key)
		vsym.Assert(int64(len(ms)) == la, "set: enumeration agrees with size")
		for _, m := range ms {
			vsym.Assert(vsym.BytesEq(m, newm), "set: no member of the expired predecessor is visible")
		}
	case 2: // list
		_, err = a.db.RPush(c10T0, key, oldm)
		vsym.Assert(err == nil, "pre RPUSH")
		n, err = a.db.LExpire(c10T0, key, d)
		vsym.Assert(err == nil && n == 1, "pre LEXPIRE")
		na, ea := a.db.RPush(ts, key, newm)
		nb, eb := b.db.RPush(ts, key, newm)
		vsym.Assert(ea == nil && eb == nil && na == nb, "RPUSH on expired list = RPUSH on absent list")
		c10ClockNotBehind(ts)
		es, _ := a.db.LRange(key, 0, -1)
		vsym.Assert(len(es) == 1 && vsym.BytesEq(es[0], newm), "list: only the new element is visible")
	case 3: // zset
		_, err = a.db.ZAdd(c10T0, key, common.ScorePair{Score: 1, Member: oldm})
		vsym.Assert(err == nil, "pre ZADD")
		n, err = a.db.ZExpire(c10T0, key, d)
		vsym.Assert(err == nil && n == 1, "pre ZEXPIRE")
		na, ea := a.db.ZAdd(ts, key, common.ScorePair{Score: 2, Member: newm})
		nb, eb := b.db.ZAdd(ts, key, common.ScorePair{Score: 2, Member: newm})
		vsym.Assert(ea == nil && eb == nil && na == nb, "ZADD on expired zset = ZADD on absent zset")
		c10ClockNotBehind(ts)
		la, _ := a.db.ZCard(key)
		vsym.Assert(la == 1, "zset: size is that of the new collection")
		all, _ := a.db.ZRange(key, 0, -1)
		vsym.Assert(len(all) == 1 && vsym.BytesEq(all[0].Member, newm) && all[0].Score == 2, "zset: only the new member is visible")
	}
	vsym.Reach("end")
}

// X3: TTL and expiry arithmetic at the second boundary, full width.
func Verif_C10_X3_HeaderArithmetic() {
	h := &headerMetaValue{Ver: byte(common.ValueHeaderV1), ExpireAt: vsym.U32("expireat")}
	ts := vsym.I64("ts")
	vsym.Assume(ts > 0)
	sec := ts / int64(1e9)
	exp := h.isExpired(ts)
	ttl := h.ttl(ts)
	if h.ExpireAt == 0 {
		vsym.Assert(!exp && ttl == -1, "no expiry: never expired, TTL -1")
	} else {
		vsym.Assert(exp == (int64(h.ExpireAt) <= sec), "expired iff the expiry second has been reached")
		vsym.Assert(vsym.Implies(!exp, ttl == int64(h.ExpireAt)-sec), "TTL is the remaining whole seconds")
		vsym.Assert(vsym.Implies(exp, ttl == -1), "an expired key reports TTL -1")
		vsym.Assert(vsym.Implies(!exp, ttl >= 1), "an unexpired key has at least one second left")
	}
	// monotone in time: once expired, expired at every later log time
	ts2 := vsym.I64("ts2")
	vsym.Assume(ts2 >= ts)
	vsym.Assert(vsym.Implies(exp, h.isExpired(ts2)), "expiry is monotone in the log timestamp")
	// encode/decode round trip of the header
	h.ValueVersion = vsym.I64("ver")
	b := h.encode()
	var h2 headerMetaValue
	_, err := h2.decode(b)
	vsym.Assert(err == nil && h2.ExpireAt == h.ExpireAt && h2.ValueVersion == h.ValueVersion && h2.Ver == h.Ver, "header round trip")
	vsym.Reach("end")
}
