//go:build verif

package rockredis

import (
	"time"

	"github.com/youzan/ZanRedisDB/common"
	"vsym"
)

// c10ClockNotBehind: reads evaluate expiry against the local clock; it is assumed not to be behind the log
// timestamp of the last applied write (the environment clock is a non-decreasing symbolic sequence).
func c10ClockNotBehind(ts int64) {
	vsym.Assume(time.Now().UnixNano() >= ts)
}

// C10 - expired data is dead; unexpired data is never removed (wait_compact policy).

const c10T0 = int64(1700000000) * 1e9 // log time of the pre-state writes (a whole second)

// c10Expired returns a symbolic duration d and a symbolic log timestamp at which a key written at c10T0
// with TTL d is expired (ts/1e9 >= t0/1e9 + d), possibly exactly at the expiry second.
func c10Expired() (d int64, ts int64) {
	d = vsym.I64("ttl")
	vsym.Assume(d >= 1 && d <= 3)
	ts = vsym.I64("ts")
	vsym.Assume(ts >= c10T0 && ts < c10T0+int64(10e9))
	vsym.Assume(ts/int64(1e9) >= c10T0/int64(1e9)+d)
	return
}

// c10Alive: same, but the key is not yet expired at ts (possibly one nanosecond before the expiry second).
func c10Alive() (d int64, ts int64) {
	d = vsym.I64("ttl")
	vsym.Assume(d >= 1 && d <= 3)
	ts = vsym.I64("ts")
	vsym.Assume(ts >= c10T0 && ts < c10T0+int64(10e9))
	vsym.Assume(ts/int64(1e9) < c10T0/int64(1e9)+d)
	return
}

func c10SameBytes(a, b []byte) bool {
	if (a == nil) != (b == nil) || len(a) != len(b) {
		return false
	}
	return vsym.BytesEq(a, b)
}

// X1 (KV): a write that builds on an expired value behaves as on an absent key.
func Verif_C10_X1_KV_ExpiredIsAbsent() {
	a, b := vOpenDB(), vOpenDB()
	defer a.done()
	defer b.done()
	key := []byte("t:k")
	old := vsym.Bytes("old", 1+vsym.Choose("oldlen", 2))
	d, ts := c10Expired()
	vsym.Assert(a.db.SetEx(c10T0, key, d, old) == nil, "pre-state SETEX")
	cmd := vsym.Choose("cmd", 8)
	arg := vsym.Bytes("arg", 1)
	off := 0
	if cmd == 1 {
		off = vsym.Choose("offset", 3)
	}
	run := func(db *RockDB) (int64, []byte, error) {
		switch cmd {
		case 0:
			n, err := db.Append(ts, key, arg)
			return n, nil, err
		case 1:
			n, err := db.SetRange(ts, key, off, arg)
			return n, nil, err
		case 2:
			n, err := db.Incr(ts, key)
			return n, nil, err
		case 3:
			n, err := db.SetNX(ts, key, arg)
			return n, nil, err
		case 4:
			v, err := db.KVGetSet(ts, key, arg)
			return 0, v, err
		case 5:
			return 0, nil, db.KVSet(ts, key, arg)
		case 6:
			n, err := db.Expire(ts, key, 100)
			return n, nil, err
		default:
			n, err := db.Persist(ts, key)
			return n, nil, err
		}
	}
	na, va, ea := run(a.db)
	nb, vb, eb := run(b.db)
	vsym.Assert((ea == nil) == (eb == nil), "expired = absent: same success/error")
	vsym.Assert(na == nb, "expired = absent: same integer reply")
	vsym.Assert(c10SameBytes(va, vb), "expired = absent: same bulk reply")
	c10ClockNotBehind(ts)
	ga, err := a.db.KVGet(key)
	vsym.Assert(err == nil, "GET ok")
	gb, err := b.db.KVGet(key)
	vsym.Assert(err == nil, "GET ok")
	vsym.Assert(c10SameBytes(ga, gb), "expired = absent: same value afterwards (nothing of the expired value survives, no stale expiry hides the new value)")
	ta, _ := a.db.KVTtl(key)
	tb, _ := b.db.KVTtl(key)
	vsym.Assert(ta == tb, "expired = absent: same TTL afterwards")
	vsym.Reach("end")
}

// X2 (KV): before its expiry time a key is fully visible; overwriting commands and PERSIST clear the expiry,
// modifying commands keep it.
func Verif_C10_X2_KV_AliveBeforeExpiry() {
	a := vOpenDB()
	defer a.done()
	key := []byte("t:k")
	old := []byte{'1'}
	d, ts := c10Alive()
	vsym.Assert(a.db.SetEx(c10T0, key, d, old) == nil, "pre-state SETEX")
	h0 := a.kvHeader(key)
	vsym.Assert(h0 != nil && int64(h0.ExpireAt) == c10T0/int64(1e9)+d, "SETEX stores log seconds + duration")
	cmd := vsym.Choose("cmd", 6)
	arg := vsym.Bytes("arg", 1)
	switch cmd {
	case 0:
		n, err := a.db.Append(ts, key, arg)
		vsym.Assert(err == nil && n == 2, "APPEND sees the unexpired value")
	case 1:
		n, err := a.db.Incr(ts, key)
		vsym.Assert(err == nil && n == 2, "INCR sees the unexpired value")
	case 2:
		n, err := a.db.SetNX(ts, key, arg)
		vsym.Assert(err == nil && n == 0, "SETNX sees the unexpired key")
	case 3:
		v, err := a.db.KVGetSet(ts, key, arg)
		vsym.Assert(err == nil && c10SameBytes(v, old), "GETSET returns the unexpired value")
	case 4:
		vsym.Assert(a.db.KVSet(ts, key, arg) == nil, "SET ok")
	case 5:
		n, err := a.db.Persist(ts, key)
		vsym.Assert(err == nil && n == 1, "PERSIST on a key with expiry")
	}
	h1 := a.kvHeader(key)
	vsym.Assert(h1 != nil, "nothing deletes the unexpired key")
	if h1 != nil {
		switch cmd {
		case 0, 1, 2:
			vsym.Assert(h1.ExpireAt == h0.ExpireAt, "modifying commands keep the expiry")
		default:
			vsym.Assert(h1.ExpireAt == 0, "overwriting commands and PERSIST clear the expiry")
		}
	}
	vsym.Reach("end")
}

// kvHeader decodes the stored header of a KV key (nil if absent).
func (v *vDB) kvHeader(key []byte) *headerMetaValue {
	_, rk, _ := extractTableFromRedisKey(key)
	_ = rk
	raw := v.rawGet(encodeKVKey(key))
	if raw == nil {
		return nil
	}
	h, err := v.db.expiration.decodeRawValue(KVType, raw)
	if err != nil {
		panic(err)
	}
	return h
}

// X1 (collections): a write on an expired collection starts from empty and never shows old members.
func Verif_C10_X1_Coll_ExpiredIsAbsent() {
	a, b := vOpenDB(), vOpenDB()
	defer a.done()
	defer b.done()
	key := []byte("t:k")
	oldm := vsym.Bytes("oldmember", 1)
	newm := vsym.Bytes("newmember", 1)
	d, ts := c10Expired()
	typ := vsym.Choose("type", 4)
	var n int64
	var err error
	switch typ {
	case 0: // hash
		_, err = a.db.HSet(c10T0, false, key, oldm, []byte{'1'})
		vsym.Assert(err == nil, "pre HSET")
		n, err = a.db.HExpire(c10T0, key, d)
		vsym.Assert(err == nil && n == 1, "pre HEXPIRE")
		na, ea := a.db.HSet(ts, false, key, newm, []byte{'2'})
		nb, eb := b.db.HSet(ts, false, key, newm, []byte{'2'})
		vsym.Assert(ea == nil && eb == nil && na == nb, "HSET on expired hash = HSET on absent hash")
		c10ClockNotBehind(ts)
		la, _ := a.db.HLen(key)
		lb, _ := b.db.HLen(key)
		vsym.Assert(la == lb, "hash: same size afterwards")
		_, alla, _ := a.db.HGetAll(key)
		vsym.Assert(int64(len(alla)) == la, "hash: enumeration agrees with size")
		for _, r := range alla {
			vsym.Assert(vsym.BytesEq(r.Rec.Key, newm), "hash: no field of the expired predecessor is visible")
		}
		ta, _ := a.db.HashTtl(key)
		vsym.Assert(ta == -1, "hash: the re-created hash has no expiry")
	case 1: // set
		_, err = a.db.SAdd(c10T0, key, oldm)
		vsym.Assert(err == nil, "pre SADD")
		n, err = a.db.SExpire(c10T0, key, d)
		vsym.Assert(err == nil && n == 1, "pre SEXPIRE")
		na, ea := a.db.SAdd(ts, key, newm)
		nb, eb := b.db.SAdd(ts, key, newm)
		vsym.Assert(ea == nil && eb == nil && na == nb, "SADD on expired set = SADD on absent set")
		c10ClockNotBehind(ts)
		la, _ := a.db.SCard(key)
		lb, _ := b.db.SCard(key)
		vsym.Assert(la == lb, "set: same size afterwards")
		ms, _ := a.db.SMembers(key)
		vsym.Assert(int64(len(ms)) == la, "set: enumeration agrees with size")
		for _, m := range ms {
			vsym.Assert(vsym.BytesEq(m, newm), "set: no member of the expired predecessor is visible")
		}
	case 2: // list
		_, err = a.db.RPush(c10T0, key, oldm)
		vsym.Assert(err == nil, "pre RPUSH")
		n, err = a.db.LExpire(c10T0, key, d)
		vsym.Assert(err == nil && n == 1, "pre LEXPIRE")
		na, ea := a.db.RPush(ts, key, newm)
		nb, eb := b.db.RPush(ts, key, newm)
		vsym.Assert(ea == nil && eb == nil && na == nb, "RPUSH on expired list = RPUSH on absent list")
		c10ClockNotBehind(ts)
		es, _ := a.db.LRange(key, 0, -1)
		vsym.Assert(len(es) == 1 && vsym.BytesEq(es[0], newm), "list: only the new element is visible")
	case 3: // zset
		_, err = a.db.ZAdd(c10T0, key, common.ScorePair{Score: 1, Member: oldm})
		vsym.Assert(err == nil, "pre ZADD")
		n, err = a.db.ZExpire(c10T0, key, d)
		vsym.Assert(err == nil && n == 1, "pre ZEXPIRE")
		na, ea := a.db.ZAdd(ts, key, common.ScorePair{Score: 2, Member: newm})
		nb, eb := b.db.ZAdd(ts, key, common.ScorePair{Score: 2, Member: newm})
		vsym.Assert(ea == nil && eb == nil && na == nb, "ZADD on expired zset = ZADD on absent zset")
		c10ClockNotBehind(ts)
		la, _ := a.db.ZCard(key)
		vsym.Assert(la == 1, "zset: size is that of the new collection")
		all, _ := a.db.ZRange(key, 0, -1)
		vsym.Assert(len(all) == 1 && vsym.BytesEq(all[0].Member, newm) && all[0].Score == 2, "zset: only the new member is visible")
	}
	vsym.Reach("end")
}

// X3: TTL and expiry arithmetic at the second boundary, full width.
func Verif_C10_X3_HeaderArithmetic() {
	h := &headerMetaValue{Ver: byte(common.ValueHeaderV1), ExpireAt: vsym.U32("expireat")}
	ts := vsym.I64("ts")
	vsym.Assume(ts > 0)
	sec := ts / int64(1e9)
	exp := h.isExpired(ts)
	ttl := h.ttl(ts)
	if h.ExpireAt == 0 {
		vsym.Assert(!exp && ttl == -1, "no expiry: never expired, TTL -1")
	} else {
		vsym.Assert(exp == (int64(h.ExpireAt) <= sec), "expired iff the expiry second has been reached")
		vsym.Assert(vsym.Implies(!exp, ttl == int64(h.ExpireAt)-sec), "TTL is the remaining whole seconds")
		vsym.Assert(vsym.Implies(exp, ttl == -1), "an expired key reports TTL -1")
		vsym.Assert(vsym.Implies(!exp, ttl >= 1), "an unexpired key has at least one second left")
	}
	// monotone in time: once expired, expired at every later log time
	ts2 := vsym.I64("ts2")
	vsym.Assume(ts2 >= ts)
	vsym.Assert(vsym.Implies(exp, h.isExpired(ts2)), "expiry is monotone in the log timestamp")
	// encode/decode round trip of the header
	h.ValueVersion = vsym.I64("ver")
	b := h.encode()
	var h2 headerMetaValue
	_, err := h2.decode(b)
	vsym.Assert(err == nil && h2.ExpireAt == h.ExpireAt && h2.ValueVersion == h.ValueVersion && h2.Ver == h.Ver, "header round trip")
	vsym.Reach("end")
}

// X4 (collections): after its expiry second, an expired collection is indistinguishable from an absent one
// for any follow-up command (PERSIST, EXPIRE, remove, clear, pop, incr ...), and a later re-creation never
// shows members of the predecessor.
func Verif_C10_X4_Coll_ExpiredEqualsAbsent() {
	a, b := vOpenDB(), vOpenDB()
	defer a.done()
	defer b.done()
	key := []byte("t:k")
	oldm := vsym.Bytes("oldmember", 1)
	newm := vsym.Bytes("newmember", 1)
	d, ts := c10Expired()
	typ := vsym.Choose("type", 4)
	op := vsym.Choose("op", 5)
	var n int64
	var err error
	// pre-state on a only: one member, then EXPIRE
	switch typ {
	case 0:
		_, err = a.db.HSet(c10T0, false, key, oldm, []byte{'1'})
		vsym.Assert(err == nil, "pre HSET")
		n, err = a.db.HExpire(c10T0, key, d)
	case 1:
		_, err = a.db.SAdd(c10T0, key, oldm)
		vsym.Assert(err == nil, "pre SADD")
		n, err = a.db.SExpire(c10T0, key, d)
	case 2:
		_, err = a.db.RPush(c10T0, key, oldm)
		vsym.Assert(err == nil, "pre RPUSH")
		n, err = a.db.LExpire(c10T0, key, d)
	case 3:
		_, err = a.db.ZAdd(c10T0, key, common.ScorePair{Score: 1, Member: oldm})
		vsym.Assert(err == nil, "pre ZADD")
		n, err = a.db.ZExpire(c10T0, key, d)
	}
	vsym.Assert(err == nil && n == 1, "pre EXPIRE")
	// the follow-up command at a log time at/after the expiry second, on the expired (a) and on the absent (b) collection
	step := func(v *vDB) (int64, []byte, error) {
		db := v.db
		switch typ {
		case 0:
			switch op {
			case 0:
				r, e := db.HPersist(ts, key)
				return r, nil, e
			case 1:
				r, e := db.HExpire(ts, key, 100)
				return r, nil, e
			case 2:
				r, e := db.HDel(ts, key, oldm)
				return r, nil, e
			case 3:
				r, e := db.HClear(ts, key)
				return r, nil, e
			default:
				r, e := db.HIncrBy(ts, key, oldm, 5)
				return r, nil, e
			}
		case 1:
			switch op {
			case 0:
				r, e := db.SPersist(ts, key)
				return r, nil, e
			case 1:
				r, e := db.SExpire(ts, key, 100)
				return r, nil, e
			case 2:
				r, e := db.SRem(ts, key, oldm)
				return r, nil, e
			case 3:
				r, e := db.SClear(ts, key)
				return r, nil, e
			default:
				vs, e := db.SPop(ts, key, 1)
				if len(vs) > 0 {
					return int64(len(vs)), vs[0], e
				}
				return 0, nil, e
			}
		case 2:
			switch op {
			case 0:
				r, e := db.LPersist(ts, key)
				return r, nil, e
			case 1:
				r, e := db.LExpire(ts, key, 100)
				return r, nil, e
			case 2:
				bs, e := db.LPop(ts, key)
				return 0, bs, e
			case 3:
				r, e := db.LClear(ts, key)
				return r, nil, e
			default:
				bs, e := db.RPop(ts, key)
				return 0, bs, e
			}
		default:
			switch op {
			case 0:
				r, e := db.ZPersist(ts, key)
				return r, nil, e
			case 1:
				r, e := db.ZExpire(ts, key, 100)
				return r, nil, e
			case 2:
				r, e := db.ZRem(ts, key, oldm)
				return r, nil, e
			case 3:
				r, e := db.ZClear(ts, key)
				return r, nil, e
			default:
				r, e := db.ZRemRangeByRank(ts, key, 0, -1)
				return r, nil, e
			}
		}
	}
	c10ClockNotBehind(ts) // the replica's clock is not behind the log time of the command it applies
	ra, ba, ea := step(a)
	rb, bb, eb := step(b)
	vsym.Assert((ea == nil) == (eb == nil), "follow-up command: same error status on expired and on absent collection")
	vsym.Assert(ra == rb && c10SameBytes(ba, bb), "follow-up command: same reply on expired and on absent collection")
	c10ClockNotBehind(ts)
	// observation 1: both stores look the same (the expired collection's members are not visible)
	c10CollSame(a, b, typ, key, "after the follow-up command")
	// observation 2: re-creation shows nothing of the predecessor
	ts2 := ts + 1
	for _, v := range []*vDB{a, b} {
		switch typ {
		case 0:
			_, err = v.db.HSet(ts2, false, key, newm, []byte{'2'})
		case 1:
			_, err = v.db.SAdd(ts2, key, newm)
		case 2:
			_, err = v.db.RPush(ts2, key, newm)
		case 3:
			_, err = v.db.ZAdd(ts2, key, common.ScorePair{Score: 2, Member: newm})
		}
		vsym.Assert(err == nil, "re-creation succeeds")
	}
	c10ClockNotBehind(ts2)
	c10CollSame(a, b, typ, key, "after re-creation")
	vsym.Reach("end")
}

// c10CollSame: size, enumeration and TTL of the collection are the same in both stores.
func c10CollSame(a, b *vDB, typ int, key []byte, when string) {
	switch typ {
	case 0:
		la, _ := a.db.HLen(key)
		lb, _ := b.db.HLen(key)
		_, xa, _ := a.db.HGetAll(key)
		_, xb, _ := b.db.HGetAll(key)
		ta, _ := a.db.HashTtl(key)
		tb, _ := b.db.HashTtl(key)
		vsym.Assert(la == lb && len(xa) == len(xb) && int64(len(xa)) == la && ta == tb, "hash: same size and ttl as on the absent-key store "+when)
		for i := range xa {
			if i < len(xb) {
				vsym.Assert(c10SameBytes(xa[i].Rec.Key, xb[i].Rec.Key) && c10SameBytes(xa[i].Rec.Value, xb[i].Rec.Value), "hash: same fields as on the absent-key store "+when)
			}
		}
	case 1:
		la, _ := a.db.SCard(key)
		lb, _ := b.db.SCard(key)
		xa, _ := a.db.SMembers(key)
		xb, _ := b.db.SMembers(key)
		ta, _ := a.db.SetTtl(key)
		tb, _ := b.db.SetTtl(key)
		vsym.Assert(la == lb && len(xa) == len(xb) && int64(len(xa)) == la && ta == tb, "set: same size and ttl as on the absent-key store "+when)
		for i := range xa {
			if i < len(xb) {
				vsym.Assert(c10SameBytes(xa[i], xb[i]), "set: same members as on the absent-key store "+when)
			}
		}
	case 2:
		la, _ := a.db.LLen(key)
		lb, _ := b.db.LLen(key)
		xa, _ := a.db.LRange(key, 0, -1)
		xb, _ := b.db.LRange(key, 0, -1)
		ta, _ := a.db.ListTtl(key)
		tb, _ := b.db.ListTtl(key)
		vsym.Assert(la == lb && len(xa) == len(xb) && int64(len(xa)) == la && ta == tb, "list: same size and ttl as on the absent-key store "+when)
		for i := range xa {
			if i < len(xb) {
				vsym.Assert(c10SameBytes(xa[i], xb[i]), "list: same elements as on the absent-key store "+when)
			}
		}
	case 3:
		la, _ := a.db.ZCard(key)
		lb, _ := b.db.ZCard(key)
		xa, _ := a.db.ZRange(key, 0, -1)
		xb, _ := b.db.ZRange(key, 0, -1)
		ta, _ := a.db.ZSetTtl(key)
		tb, _ := b.db.ZSetTtl(key)
		vsym.Assert(la == lb && len(xa) == len(xb) && int64(len(xa)) == la && ta == tb, "zset: same size and ttl as on the absent-key store "+when)
		for i := range xa {
			if i < len(xb) {
				vsym.Assert(c10SameBytes(xa[i].Member, xb[i].Member) && xa[i].Score == xb[i].Score, "zset: same members as on the absent-key store "+when)
			}
		}
	}
}

