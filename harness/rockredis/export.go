//go:build verif

package rockredis

// exports of the KV model store for harnesses in package node

type VerifDB struct{ v *vDB }

func VerifOpenDB() (*RockDB, *VerifDB) {
	v := vOpenDB()
	return v.db, &VerifDB{v}
}

func (d *VerifDB) Close() { d.v.done() }

// PendingBatchOps: number of operations sitting in the shared write batch (model store only; -1 natively).
func (d *VerifDB) PendingBatchOps() int {
	if d.v.model == nil {
		return -1
	}
	return len(d.v.db.wb.(*vBatch).ops)
}

// Writes: number of committed batches so far (model store only).
func (d *VerifDB) Writes() int {
	if d.v.model == nil {
		return -1
	}
	return d.v.model.writes
}

// Snapshot returns the raw content of the store (model store only).
func (d *VerifDB) Snapshot() (keys, vals [][]byte) {
	if d.v.model == nil {
		return nil, nil
	}
	for _, kv := range d.v.model.kvs {
		keys = append(keys, kv.k)
		vals = append(vals, kv.v)
	}
	return
}
