//go:build verif

package rafthttp

import (
	"bytes"

	"github.com/youzan/ZanRedisDB/pkg/types"
	"github.com/youzan/ZanRedisDB/raft/raftpb"
	"github.com/youzan/ZanRedisDB/stats"
	"vsym"
)

// C16 - raft messages arrive as sent through the stream codecs.

const c16Local, c16Remote = uint64(2), uint64(1) // receiving node id, sending node id

func c16Small(name string) uint64 {
	v := vsym.U64(name)
	vsym.Assume(v < 128) // one varint length class; the codec logic does not depend on the class (R2 varies it)
	return v
}

func c16Group(tag string, node uint64) raftpb.Group {
	return raftpb.Group{NodeId: node, Name: "n", GroupId: c16Small(tag + ".gid"), RaftReplicaId: c16Small(tag + ".rid")}
}

func c16Entries(n int) []raftpb.Entry { return c16EntriesL(n, -1) }

func c16EntriesL(n int, fixedLen int) []raftpb.Entry {
	var es []raftpb.Entry
	for i := 0; i < n; i++ {
		et := c16Small("e.type")
		vsym.Assume(et < 2)
		dl := fixedLen
		if dl < 0 {
			dl = 2 * vsym.Choose("e.datalen", 2) // 0 or 2 bytes
			if vsym.Thorough() {
				dl = vsym.Choose("e.datalen", 3)
			}
		}
		e := raftpb.Entry{Term: c16Small("e.term"), Index: c16Small("e.index"), Type: raftpb.EntryType(et),
			ID: c16Small("e.id"), Data: vsym.Bytes("e.data", dl)}
		es = append(es, e)
	}
	return es
}

// c16AppMsg builds a MsgApp the way raft.send does for the v2 stream: From/To are the replica ids of the groups.
func c16AppMsg(maxEnts int) raftpb.Message {
	return c16AppMsgE(c16Entries(vsym.Choose("nents", maxEnts+1)))
}

func c16AppMsgE(ents []raftpb.Entry) raftpb.Message {
	fg := c16Group("from", c16Remote)
	tg := c16Group("to", c16Local)
	return raftpb.Message{Type: raftpb.MsgApp, From: fg.RaftReplicaId, To: tg.RaftReplicaId, FromGroup: fg, ToGroup: tg,
		Term: c16Small("term"), LogTerm: c16Small("logterm"), Index: c16Small("index"), Commit: c16Small("commit"),
		Entries: ents}
}

func c16CloneMsg(m raftpb.Message) raftpb.Message {
	c := m
	c.Entries = nil
	for _, e := range m.Entries {
		ce := e
		ce.Data = append([]byte(nil), e.Data...)
		c.Entries = append(c.Entries, ce)
	}
	c.Context = append([]byte(nil), m.Context...)
	return c
}

func c16SameGroup(a, b raftpb.Group) bool {
	return a.NodeId == b.NodeId && a.GroupId == b.GroupId && a.RaftReplicaId == b.RaftReplicaId && a.Name == b.Name
}

func c16AssertSame(got, want raftpb.Message, what string) {
	vsym.Assert(got.Type == want.Type, what+": type")
	vsym.Assert(got.From == want.From && got.To == want.To, what+": from/to replica")
	vsym.Assert(got.Term == want.Term && got.LogTerm == want.LogTerm, what+": term/logterm")
	vsym.Assert(got.Index == want.Index, what+": index")
	vsym.Assert(got.Commit == want.Commit, what+": commit")
	vsym.Assert(got.Reject == want.Reject && got.RejectHint == want.RejectHint, what+": reject/hint")
	vsym.Assert(c16SameGroup(got.FromGroup, want.FromGroup), what+": source raft group identity")
	vsym.Assert(c16SameGroup(got.ToGroup, want.ToGroup), what+": destination raft group identity")
	vsym.Assert(len(got.Entries) == len(want.Entries), what+": number of entries")
	for i := range want.Entries {
		if i < len(got.Entries) {
			g, w := got.Entries[i], want.Entries[i]
			vsym.Assert(g.Term == w.Term && g.Index == w.Index && g.Type == w.Type && g.ID == w.ID, what+": entry header")
			vsym.Assert(len(g.Data) == len(w.Data) && vsym.BytesEq(g.Data, w.Data), what+": entry payload")
		}
	}
	vsym.Assert(len(got.Context) == len(want.Context) && vsym.BytesEq(got.Context, want.Context), what+": context")
}

func c16Seq() int {
	// (sequences of 3 messages did not finish within 20 minutes in the thorough tier: 2 in both tiers;
	// the decoder state after a message is arbitrary in message 2, which is the inductive case)
	return 2
}

// R1: msgAppV2 stream: sequences of MsgApp / link heartbeats, interleaved groups, continuation encoding.
func Verif_C16_R1_MsgAppV2() {
	var buf bytes.Buffer
	enc := newMsgAppV2Encoder(&buf, &stats.PeerStats{})
	k := 1 + vsym.Choose("k", c16Seq())
	maxEnts := 1 // (2 entries per message in sequences of 2 messages did not finish within 25 minutes; thorough widens entry data lengths only)
	var sent []raftpb.Message
	for i := 0; i < k; i++ {
		var m raftpb.Message
		if vsym.Choose("kind", 2) == 0 {
			m = linkHeartbeatMessage
		} else {
			m = c16AppMsg(maxEnts)
		}
		sent = append(sent, c16CloneMsg(m))
		vsym.Assert(enc.encode(&m) == nil, "encode succeeds")
	}
	img := append([]byte(nil), buf.Bytes()...)
	dec := newMsgAppV2Decoder(bytes.NewReader(img), types.ID(c16Local), types.ID(c16Remote))
	var got []raftpb.Message
	for i := 0; i < k; i++ {
		m, err := dec.decode()
		vsym.Assert(err == nil, "decode succeeds")
		got = append(got, m)
		if isLinkHeartbeatMessage(&sent[i]) {
			vsym.Assert(isLinkHeartbeatMessage(&m), "link heartbeat arrives as link heartbeat")
		} else {
			c16AssertSame(m, sent[i], "msgappv2")
		}
	}
	// earlier decoded messages are not disturbed by later decodes (no aliasing of the decoder's buffer)
	for i := 0; i < k; i++ {
		if !isLinkHeartbeatMessage(&sent[i]) {
			c16AssertSame(got[i], sent[i], "msgappv2 (after later decodes)")
		}
	}
	_, err := dec.decode()
	vsym.Assert(err != nil, "end of stream is an error, not a message")
	vsym.Reach("end")
}

// R3a: every truncation of a msgAppV2 byte image yields an error for the cut message.
func Verif_C16_R3_MsgAppV2_Truncation() {
	var buf bytes.Buffer
	enc := newMsgAppV2Encoder(&buf, &stats.PeerStats{})
	first := c16AppMsgE(nil)
	vsym.Assert(enc.encode(&first) == nil, "encode first")
	n1 := buf.Len()
	second := c16AppMsgE(c16EntriesL(1, 2)) // solver decides whether it continues the first one
	vsym.Assert(enc.encode(&second) == nil, "encode second")
	n2 := buf.Len()
	cut := n1 + vsym.Choose("cut", n2-n1) // the stream ends inside the second message
	img := append([]byte(nil), buf.Bytes()[:cut]...)
	dec := newMsgAppV2Decoder(bytes.NewReader(img), types.ID(c16Local), types.ID(c16Remote))
	m, err := dec.decode()
	vsym.Assert(err == nil, "first message decodes")
	c16AssertSame(m, first, "first")
	_, err = dec.decode()
	vsym.Assert(err != nil, "a truncated message is an error, not a message")
	vsym.Reach("end")
}

// R3b: an unknown type byte is an error.
func Verif_C16_R3_MsgAppV2_BadType() {
	t := vsym.U8("type")
	vsym.Assume(t > 2)
	img := []byte{t, 0, 0, 0, 0, 0, 0, 0, 0}
	dec := newMsgAppV2Decoder(bytes.NewReader(img), types.ID(c16Local), types.ID(c16Remote))
	_, err := dec.decode()
	vsym.Assert(err != nil, "unknown type byte is an error")
	vsym.Reach("end")
}

// c16Wide: a numeric field ranging over three varint length classes.
func c16Wide(name string) uint64 {
	v := vsym.U64(name)
	switch vsym.Choose(name+".class", 3) {
	case 0:
		vsym.Assume(v < 1<<7)
	case 1:
		vsym.Assume(v >= 1<<7 && v < 1<<14)
	default:
		vsym.Assume(v >= 1<<63)
	}
	return v
}

// R2: generic message codec, every message type, one wide field at a time, snapshot metadata.
func Verif_C16_R2_MessageCodec() {
	var buf bytes.Buffer
	enc := &messageEncoder{w: &buf}
	k := 1 // (two generic messages in a row: covered with fixed shapes by R3 MessageCodec_Truncation)
	var sent []raftpb.Message
	for i := 0; i < k; i++ {
		// the type is a symbolic value; MsgSnap (which carries a snapshot) is a shape of its own
		typ := raftpb.MessageType(c16Small("type"))
		vsym.Assume(typ <= 18 && typ != raftpb.MsgSnap)
		if vsym.Choose("snap", 2) == 1 {
			typ = raftpb.MsgSnap
		}
		m := raftpb.Message{Type: typ, From: c16Small("from"), To: c16Small("to"),
			Term: c16Small("term"), LogTerm: c16Small("logterm"), Index: c16Small("index"), Commit: c16Small("commit"),
			Reject: vsym.Bool("reject"), RejectHint: c16Small("hint"),
			FromGroup: c16Group("from", c16Remote), ToGroup: c16Group("to", c16Local)}
		switch vsym.Choose("wide", 4) {
		case 0:
			m.Term = c16Wide("term.w")
		case 1:
			m.Index = c16Wide("index.w")
		case 2:
			m.Commit = c16Wide("commit.w")
		}
		if i == 0 {
			m.Entries = c16Entries(vsym.Choose("nents", 2))
			m.Context = vsym.Bytes("ctx", vsym.Choose("ctxlen", 2))
		}
		if m.Type == raftpb.MsgSnap {
			m.Snapshot.Metadata.Index = c16Small("snap.index")
			m.Snapshot.Metadata.Term = c16Small("snap.term")
			m.Snapshot.Metadata.ConfState.Nodes = []uint64{c16Small("cs.node")}
			m.Snapshot.Data = vsym.Bytes("snap.data", 1)
		}
		sent = append(sent, c16CloneMsg(m))
		vsym.Assert(enc.encode(&m) == nil, "encode succeeds")
	}
	img := append([]byte(nil), buf.Bytes()...)
	dec := newMessageDecoder(bytes.NewReader(img))
	for i := 0; i < k; i++ {
		m, err := dec.decode()
		vsym.Assert(err == nil, "decode succeeds")
		c16AssertSame(m, sent[i], "msgcodec")
		if sent[i].Type == raftpb.MsgSnap {
			vsym.Assert(m.Snapshot.Metadata.Index == sent[i].Snapshot.Metadata.Index && m.Snapshot.Metadata.Term == sent[i].Snapshot.Metadata.Term, "snapshot metadata")
			vsym.Assert(len(m.Snapshot.Metadata.ConfState.Nodes) == 1 && m.Snapshot.Metadata.ConfState.Nodes[0] == sent[i].Snapshot.Metadata.ConfState.Nodes[0], "snapshot conf state")
			vsym.Assert(len(m.Snapshot.Data) == 1 && m.Snapshot.Data[0] == sent[i].Snapshot.Data[0], "snapshot data")
		}
	}
	_, err := dec.decode()
	vsym.Assert(err != nil, "end of stream is an error")
	vsym.Reach("end")
}

// R3c: truncation of the generic stream (two messages on one decoder, cut at any byte), and the size limit.
func Verif_C16_R3_MessageCodec_Truncation() {
	var buf bytes.Buffer
	enc := &messageEncoder{w: &buf}
	var ends []int
	for i := 0; i < 2; i++ {
		typ := raftpb.MessageType(c16Small("type"))
		vsym.Assume(typ <= 18)
		m := raftpb.Message{Type: typ, From: c16Small("from"), To: c16Small("to"), Term: c16Small("term")}
		if i == 0 {
			m.Entries = c16EntriesL(1, 2)
		} else {
			// the second message is as long as the first or shorter (the decoder reuses its buffer)
			switch vsym.Choose("shape2", 3) {
			case 0:
				m.Entries = c16EntriesL(1, 2)
			case 1:
				m.Entries = c16EntriesL(1, 1)
			}
		}
		vsym.Assert(enc.encode(&m) == nil, "encode")
		ends = append(ends, buf.Len())
	}
	n := buf.Len()
	cut := vsym.Choose("cut", n)
	dec := newMessageDecoder(bytes.NewReader(append([]byte(nil), buf.Bytes()[:cut]...)))
	for i := 0; i < 2; i++ {
		_, err := dec.decode()
		if cut >= ends[i] {
			vsym.Assert(err == nil, "a message that is completely in the stream decodes")
			continue
		}
		vsym.Assert(err != nil, "a truncated message is an error, not a message")
		break
	}
	// size limit
	l := vsym.U64("len")
	vsym.Assume(l > readBytesLimit)
	var lb [8]byte
	for i := 0; i < 8; i++ {
		lb[i] = byte(l >> (8 * uint(7-i)))
	}
	dec2 := newMessageDecoder(bytes.NewReader(lb[:]))
	_, err := dec2.decode()
	vsym.Assert(err == ErrExceedSizeLimit, "oversized length prefix is refused before allocating")
	vsym.Reach("end")
}
