//go:build verif

package cluster

// exports for harnesses in other packages

func VerifSetReplicaEpoch(p *PartitionReplicaInfo, e int64) { p.epoch = EpochType(e) }
func VerifReplicaEpoch(p *PartitionReplicaInfo) int64       { return int64(p.epoch) }
