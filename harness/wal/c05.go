//go:build verif

package wal

import (
	"bytes"
	"hash/crc32"
	"io"
	"os"

	"github.com/youzan/ZanRedisDB/pkg/fileutil"
	"github.com/youzan/ZanRedisDB/raft/raftpb"
	"github.com/youzan/ZanRedisDB/wal/walpb"
	"vsym"
)

// C05 - WAL reopen returns exactly a durable prefix. The encoder, page writer,
// decoder and ReadAll are the repository's; the file is a byte slice.

type c05File struct{ data []byte }

func (f *c05File) Write(p []byte) (int, error) {
	f.data = append(f.data, p...)
	return len(p), nil
}

// W1: frame-size arithmetic at full width.
func Verif_C05_W1_FrameSize() {
	n := vsym.I64("n")
	vsym.Assume(n >= 0)
	vsym.Assume(n < 1<<56)
	lenField, pad := encodeFrameSize(int(n))
	rec, pad2 := decodeFrameSize(int64(lenField))
	vsym.Assert(rec == n, "record size survives the length field")
	vsym.Assert(pad2 == int64(pad), "padding survives the length field")
	vsym.Assert(pad >= 0 && pad < 8, "padding below 8")
	vsym.Assert((n+int64(pad))%8 == 0, "record plus padding is 8-byte aligned")
	vsym.Assert(vsym.Implies(n > 0, lenField != 0), "a non-empty record never has the zero length field that marks end of log")
	// decoder guard: anything it would allocate is below the limit
	l := vsym.I64("l")
	rb, pb := decodeFrameSize(l)
	vsym.Assert(rb >= 0 && pb >= 0 && pb < 8, "decoded sizes are non-negative for every length field")
	vsym.Reach("end")
}

type c05Rec struct {
	typ  int64
	data []byte
	crc  uint32
}

// c05Crc returns the crc the encoder will store for data (same uninterpreted-function term under gosym).
func c05Crc(e *encoder, data []byte) uint32 {
	return crc32.Update(e.crc.Sum32(), crcTable, data)
}

// c05Write encodes k records with the real encoder and returns what was written and where each frame ends.
// allCrc: let the stored crc range over all five varint length classes (forks 5 ways per record);
// otherwise it is assumed to lie in the top class (>= 2^28), which is stated as a bound.
func c05Write(f *c05File, prevCrc uint32, pageOffset int, k int, lens []int, allCrc bool) ([]c05Rec, []int) {
	e := newEncoder(f, prevCrc, pageOffset)
	var recs []c05Rec
	var ends []int
	for i := 0; i < k; i++ {
		typ := vsym.I64("type")
		vsym.Assume(typ >= 1 && typ <= 5 && typ != crcType)
		dl := lens[vsym.Choose("datalen", len(lens))]
		data := vsym.Bytes("data", dl)
		if !allCrc || i < k-1 {
			vsym.AssumeModel(c05Crc(e, data) >= 1<<28)
		}
		rec := &walpb.Record{Type: typ, Data: data}
		err := e.encode(rec)
		vsym.Assert(err == nil, "encode succeeds")
		recs = append(recs, c05Rec{typ, append([]byte(nil), data...), rec.Crc})
		// flush after each record so that we learn where each frame ends
		vsym.Assert(e.flush() == nil, "flush succeeds")
		ends = append(ends, len(f.data))
	}
	return recs, ends
}

func c05MaxRecs() int {
	if vsym.Thorough() {
		return 3
	}
	return 2
}

// W2: encoder -> decoder round trip.
func Verif_C05_W2_RoundTrip() {
	f := &c05File{}
	prev := vsym.U32("prevcrc")
	k := 1 + vsym.Choose("k", c05MaxRecs())
	recs, ends := c05Write(f, prev, 0, k, []int{0, 1, 2, 3, 4}, true)
	img := append([]byte(nil), f.data...)
	d := newDecoder(bytes.NewReader(img))
	d.updateCRC(prev)
	for i := 0; i < k; i++ {
		var rec walpb.Record
		err := d.decode(&rec)
		vsym.Assert(err == nil, "record decodes")
		vsym.Assert(rec.Type == recs[i].typ, "type as written")
		vsym.Assert(len(rec.Data) == len(recs[i].data), "data length as written")
		vsym.Assert(vsym.BytesEq(rec.Data, recs[i].data), "data as written")
		vsym.Assert(rec.Crc == recs[i].crc, "crc as written")
		vsym.Assert(d.lastOffset() == int64(ends[i]), "lastValidOff is the end of the frame")
	}
	var rec walpb.Record
	err := d.decode(&rec)
	vsym.Assert(err == io.EOF, "clean end of log")
	vsym.Assert(d.lastOffset() == int64(ends[k-1]), "lastValidOff unchanged by EOF")
	// the image is unchanged by later encoder activity (no aliasing of the reused buffer)
	vsym.Assert(vsym.BytesEq(img, f.data), "written bytes are stable")
	vsym.Reach("end")
}

// W3a: truncation of the last frame at every byte offset.
func Verif_C05_W3_Truncate() {
	f := &c05File{}
	prev := vsym.U32("prevcrc")
	k := 1 + vsym.Choose("k", 2)
	recs, ends := c05Write(f, prev, 0, k, []int{0, 3}, true)
	start := 0
	if k > 1 {
		start = ends[k-2]
	}
	cut := start + vsym.Choose("cut", ends[k-1]-start) // file ends inside the last frame (possibly right at its start)
	img := append([]byte(nil), f.data[:cut]...)
	d := newDecoder(bytes.NewReader(img))
	d.updateCRC(prev)
	for i := 0; i < k-1; i++ {
		var rec walpb.Record
		err := d.decode(&rec)
		vsym.Assert(err == nil, "earlier record decodes")
		vsym.Assert(rec.Type == recs[i].typ && vsym.BytesEq(rec.Data, recs[i].data), "earlier record unchanged")
	}
	var rec walpb.Record
	err := d.decode(&rec)
	vsym.Assert(err == io.EOF || err == io.ErrUnexpectedEOF, "a truncated last frame is reported as (unexpected) EOF, the repairable kind")
	if cut == start {
		vsym.Assert(err == io.EOF, "cut at a frame boundary is a clean EOF")
	} else {
		vsym.Assert(err == io.ErrUnexpectedEOF, "cut inside a frame is an unexpected EOF")
	}
	vsym.Assert(d.lastOffset() == int64(start), "lastValidOff still points at the end of the last complete record")
	vsym.Reach("end")
}

// W3b: torn write into preallocated (zero-filled) space: the last frame lies at a symbolic file offset
// and a sector-aligned suffix of it is zero. It must never decode to a *different* record.
func Verif_C05_W3_TornZero() {
	f := &c05File{}
	prev := vsym.U32("prevcrc")
	recs, ends := c05Write(f, prev, 0, 1, []int{0, 1, 4}, true)
	frame := append([]byte(nil), f.data[:ends[0]]...)
	// place the frame so that a sector boundary falls inside it at byte `b` (1..len-1)
	b := 1 + vsym.Choose("boundary", len(frame)-1)
	// the file: (512-b) bytes of earlier, valid log content are represented by lastValidOff only
	img := append([]byte(nil), frame...)
	for i := b; i < len(img); i++ {
		img[i] = 0 // the second sector never reached the disk
	}
	// zero-filled preallocated space follows
	img = append(img, make([]byte, 16)...)
	d := newDecoder(bytes.NewReader(img))
	d.updateCRC(prev)
	d.lastValidOff = int64(512*3 - b)
	var rec walpb.Record
	err := d.decode(&rec)
	_ = recs
	if err == nil {
		// a frame that still decodes passed the crc check against its own bytes: either the zeroed bytes
		// were zero anyway, or it is a CRC-32 collision (the uninterpreted crc cannot exclude one; the
		// real one makes it improbable). What is decided: the check was made.
		vsym.Assert(rec.Type == crcType || rec.Crc == d.lastCRC(), "a torn frame is returned only after its crc was validated")
		vsym.Reach("torn-decoded")
	} else {
		vsym.Assert(err == io.EOF || err == io.ErrUnexpectedEOF, "a torn (partly zero) last frame is the repairable kind of error, not a fatal one")
		vsym.Assert(d.lastOffset() == int64(512*3-b), "lastValidOff unchanged by the failed decode")
	}
	vsym.Reach("end")
}

// W4: decodeRecord on an arbitrary frame body (untrusted bytes): no panic; a returned record passed the CRC check.
func Verif_C05_W4_ArbitraryFrame() {
	n := 8
	body := vsym.Bytes("body", n)
	pad := 3 + vsym.Choose("pad", 5) // record bodies of 1..5 arbitrary bytes (quick)
	if vsym.Thorough() {
		pad = 1 + vsym.Choose("pad", 7) // 1..7 arbitrary bytes (16-byte bodies did not finish within 20 minutes: outside the claim)
	}
	recBytes := n - pad
	lenField, _ := encodeFrameSize(recBytes)
	var img []byte
	var lb [8]byte
	for i := 0; i < 8; i++ {
		lb[i] = byte(lenField >> (8 * uint(i)))
	}
	img = append(img, lb[:]...)
	img = append(img, body...)
	prev := vsym.U32("prevcrc")
	d := newDecoder(bytes.NewReader(img))
	d.updateCRC(prev)
	var rec walpb.Record
	err := d.decode(&rec)
	if err == nil && rec.Type != crcType {
		want := prev
		h := d.crc
		_ = h
		// the decoder's running crc after a successful decode is the crc it validated against
		vsym.Assert(rec.Crc == d.lastCRC(), "a record is returned only if its crc field equals the chained crc of its data")
		_ = want
	}
	if err != nil {
		vsym.Assert(d.lastOffset() == 0, "failed decode leaves lastValidOff alone")
	}
	vsym.Reach("end")
}

// W5: ReadAll folds records the way the contract says: later entry with the same index replaces
// earlier ones and everything after it; newest hard state wins; crc chain is checked.
func Verif_C05_W5_ReadAll() {
	f := &c05File{}
	e := newEncoder(f, 0, 0)
	startIdx := vsym.U64("start.index")
	startTerm := vsym.U64("start.term")
	vsym.Assume(startIdx >= 1<<14 && startIdx < 1<<20) // one varint length class (3 bytes)
	vsym.Assume(startTerm < 128)
	// log: crc(0), metadata, snapshot marker, then n entries/states
	vsym.Assert(e.encode(&walpb.Record{Type: crcType, Crc: 0}) == nil, "crc record")
	vsym.AssumeModel(c05Crc(e, []byte{7}) >= 1<<28)
	vsym.Assert(e.encode(&walpb.Record{Type: metadataType, Data: []byte{7}}) == nil, "metadata record")
	snap := walpb.Snapshot{Index: startIdx, Term: startTerm}
	sb, err := snap.Marshal()
	vsym.Assert(err == nil, "marshal snapshot")
	vsym.AssumeModel(c05Crc(e, sb) >= 1<<28)
	vsym.Assert(e.encode(&walpb.Record{Type: snapshotType, Data: sb}) == nil, "snapshot record")
	n := 1 + vsym.Choose("n", c05MaxRecs())
	// reference fold
	var ref []raftpb.Entry
	var refState raftpb.HardState
	gap := false
	for i := 0; i < n; i++ {
		if vsym.Choose("kind", 2) == 0 {
			off := uint64(vsym.Choose("idxoff", 4)) // index = start + off (off 0: at/below the snapshot, ignored)
			ent := raftpb.Entry{Index: startIdx + off, Term: vsym.U64("ent.term") % 128, Data: vsym.Bytes("ent.data", 1)}
			eb, err := ent.Marshal()
			vsym.Assert(err == nil, "marshal entry")
			vsym.AssumeModel(c05Crc(e, eb) >= 1<<28)
			vsym.Assert(e.encode(&walpb.Record{Type: entryType, Data: eb}) == nil, "entry record")
			if off > 0 && !gap {
				up := int(off) - 1
				if up > len(ref) {
					gap = true
				} else {
					ref = append(ref[:up], ent)
				}
			}
		} else {
			st := raftpb.HardState{Term: vsym.U64("st.term") % 128, Vote: vsym.U64("st.vote") % 8, Commit: vsym.U64("st.commit") % 128}
			stb, err := st.Marshal()
			vsym.Assert(err == nil, "marshal state")
			vsym.AssumeModel(c05Crc(e, stb) >= 1<<28)
			vsym.Assert(e.encode(&walpb.Record{Type: stateType, Data: stb}) == nil, "state record")
			if !gap {
				refState = st
			}
		}
	}
	vsym.Assert(e.flush() == nil, "flush")
	w := &WAL{decoder: newDecoder(bytes.NewReader(f.data)), start: snap}
	md, st, ents, err := w.ReadAll()
	if gap {
		vsym.Assert(err != nil, "an index gap is a loud error")
		vsym.Reach("gap")
	} else {
		vsym.Assert(err == nil, "ReadAll succeeds on a well-formed log")
		vsym.Assert(len(md) == 1 && md[0] == 7, "metadata returned")
		vsym.Assert(st.Term == refState.Term && st.Vote == refState.Vote && st.Commit == refState.Commit, "newest hard state wins")
		vsym.Assert(len(ents) == len(ref), "number of entries = reference fold")
		for i := range ref {
			if i < len(ents) {
				vsym.Assert(ents[i].Index == ref[i].Index && ents[i].Term == ref[i].Term, "entry index/term = reference fold")
				vsym.Assert(len(ents[i].Data) == 1 && ents[i].Data[0] == ref[i].Data[0], "entry payload = reference fold")
				vsym.Assert(ents[i].Index == startIdx+uint64(i)+1, "returned entries are contiguous from the snapshot")
			}
		}
	}
	vsym.Reach("end")
}

// W5b: a snapshot marker whose term disagrees with the requested snapshot, and a broken crc chain, are loud.
func Verif_C05_W5_ReadAllLoud() {
	f := &c05File{}
	e := newEncoder(f, 0, 0)
	idx := vsym.U64("idx") % 1024
	term := vsym.U64("term") % 1024
	mterm := vsym.U64("marker.term") % 1024
	vsym.Assert(e.encode(&walpb.Record{Type: crcType, Crc: 0}) == nil, "crc record")
	snap := walpb.Snapshot{Index: idx, Term: mterm}
	sb, _ := snap.Marshal()
	vsym.Assert(e.encode(&walpb.Record{Type: snapshotType, Data: sb}) == nil, "snapshot record")
	which := vsym.Choose("case", 3)
	switch which {
	case 1:
		// a crc record in the middle that does not match the running crc
		bad := vsym.U32("badcrc")
		vsym.Assume(bad != e.crc.Sum32())
		vsym.Assume(e.crc.Sum32() != 0)
		vsym.Assert(e.encode(&walpb.Record{Type: crcType, Crc: bad}) == nil, "crc record 2")
		// encode() overwrote rec.Crc with the running crc: patch the record's crc in the image is not possible
		// through the encoder, so this case is covered by the decoder-level harness W4 instead.
	case 2:
		vsym.Assert(e.encode(&walpb.Record{Type: 9, Data: []byte{1}}) == nil, "unknown type record")
	}
	vsym.Assert(e.flush() == nil, "flush")
	w := &WAL{decoder: newDecoder(bytes.NewReader(f.data)), start: walpb.Snapshot{Index: idx, Term: term}}
	_, _, _, err := w.ReadAll()
	if which == 2 {
		vsym.Assert(err != nil, "unknown record type is a loud error")
	} else if which == 0 {
		if mterm != term {
			vsym.Assert(err == ErrSnapshotMismatch, "snapshot marker with another term is loud")
		} else {
			vsym.Assert(err == nil, "matching snapshot marker is accepted")
		}
	}
	vsym.Reach("end")
}

// W6: bookkeeping and sync policy of Save / SaveSnapshot over a WAL whose encoder writes to memory
// (symbolic run only: the tail file is an opaque *os.File whose Seek/Fdatasync are environment stubs).
// - enti, which names the next segment (cut: walName(seq+1, enti+1)), follows etcd's rule: it is the index of
//   the last saved entry, raised (never lowered) by a snapshot marker that is ahead of it;
// - when Save returns and raft.MustSync says the data must be durable, every byte has been handed to the
//   writer and Fdatasync was called (always, unless optimizedFsync allows skipping it for entry-only saves);
// - what was handed to the writer decodes to exactly the saved records.
func Verif_C05_W6_SaveBookkeeping() {
	if !vsym.SymbolicOnly() {
		vsym.Reach("end")
		return
	}
	f := &c05File{}
	w := &WAL{encoder: newEncoder(f, 0, 0), locks: []*fileutil.LockedFile{{File: &os.File{}}}}
	w.optimizedFsync = vsym.Choose("optimizedFsync", 2) == 1
	w.enti = vsym.U64("enti0")
	vsym.Assume(w.enti >= 1<<14 && w.enti < 1<<20) // indexes stay in one varint length class
	// one operation from an arbitrary bookkeeping state (inductive step)
	w.state = raftpb.HardState{Term: vsym.U64("term0") % 64, Vote: vsym.U64("vote0") % 8, Commit: vsym.U64("commit0") % 64}
	nops := 1 // (two operations in a row did not finish within 15 minutes even split 16 ways; the step is inductive, so one is the claim)
	var wantTypes []int64
	for i := 0; i < nops; i++ {
		enti0 := w.enti
		written0 := len(f.data)
		syncs0 := vsym.FsyncCalls()
		if vsym.Choose("op", 2) == 0 {
			// Save(hard state, 0..1 entries)
			st := raftpb.HardState{Term: vsym.U64("term") % 64, Vote: vsym.U64("vote") % 8, Commit: vsym.U64("commit") % 64}
			prev := w.state
			var ents []raftpb.Entry
			if vsym.Choose("nents", 2) == 1 {
				idx := vsym.U64("ent.index")
				vsym.Assume(idx >= 1<<14 && idx < 1<<20)
				ents = append(ents, raftpb.Entry{Index: idx, Term: vsym.U64("ent.term") % 64})
			}
			// keep the crc varint class fixed (see c05Write)
			vsym.Assert(w.Save(st, ents) == nil, "Save succeeds")
			empty := st.Term == 0 && st.Vote == 0 && st.Commit == 0
			if len(ents) > 0 {
				vsym.Assert(w.enti == ents[0].Index, "enti is the index of the last saved entry")
				wantTypes = append(wantTypes, entryType)
			} else {
				vsym.Assert(w.enti == enti0, "a Save without entries leaves enti alone")
			}
			if !empty {
				wantTypes = append(wantTypes, stateType)
				// the cached state is what cut() writes at the head of the next segment: it must be the newest one
				vsym.Assert(w.state.Term == st.Term && w.state.Vote == st.Vote && w.state.Commit == st.Commit, "after Save the cached hard state (written at the head of the next segment) is the saved one")
			}
			if !(empty && len(ents) == 0) {
				must := len(ents) != 0 || st.Vote != prev.Vote || st.Term != prev.Term
				if must {
					vsym.Assert(c05NothingBuffered(w, f), "MustSync: every byte was handed to the writer when Save returns")
					needFsync := !w.optimizedFsync || (!empty && (st.Vote != prev.Vote || st.Term != prev.Term))
					vsym.Assert(vsym.Implies(needFsync, vsym.FsyncCalls() > syncs0), "MustSync: Fdatasync was called (unless optimizedFsync and only entries changed)")
				}
			}
		} else {
			si := vsym.U64("snap.index")
			vsym.Assume(si >= 1<<14 && si < 1<<20)
			snap := walpb.Snapshot{Index: si, Term: vsym.U64("snap.term") % 64}
			vsym.Assert(w.SaveSnapshot(snap) == nil, "SaveSnapshot succeeds")
			want := enti0
			if snap.Index > want {
				want = snap.Index
			}
			vsym.Assert(w.enti == want, "a snapshot marker raises enti when it is ahead of the last entry and never lowers it")
			vsym.Assert(c05NothingBuffered(w, f), "SaveSnapshot flushes")
			vsym.Assert(len(f.data) > written0, "the snapshot marker reached the writer")
			vsym.Assert(w.optimizedFsync || vsym.FsyncCalls() > syncs0, "SaveSnapshot syncs unless optimizedFsync")
			wantTypes = append(wantTypes, snapshotType)
		}
	}
	vsym.Assert(w.encoder.flush() == nil, "flush")
	d := newDecoder(bytes.NewReader(f.data))
	for _, t := range wantTypes {
		var rec walpb.Record
		vsym.Assert(d.decode(&rec) == nil && rec.Type == t, "the saved records come back in order with their types")
	}
	var rec walpb.Record
	vsym.Assert(d.decode(&rec) == io.EOF, "nothing else was written")
	vsym.Reach("end")
}


// c05NothingBuffered: an extra flush hands nothing more to the writer, i.e. the page buffer was empty.
func c05NothingBuffered(w *WAL, f *c05File) bool {
	n := len(f.data)
	if w.encoder.flush() != nil {
		return false
	}
	return len(f.data) == n
}
