//go:build verif

package raft

import (
	pb "github.com/youzan/ZanRedisDB/raft/raftpb"
	"vsym"
)

// Shared builder: an arbitrary *raft satisfying the representation invariant RI (DESIGN.md section 3),
// built directly (no newRaft) over a real MemoryStorage. Structure (number of voters, role, number of
// entries) is chosen by vsym.Choose; every number is symbolic.

type vShape struct {
	N         int  // voters 1..N, self = 1
	Learner   bool // one learner with id N+1
	SelfLearn bool // self is the learner (id N+1) instead of voter 1
	Role      StateType
	NStored   int // entries in storage after the dummy
	NUnstable int // unstable entries
	Prod      bool // preVote+checkQuorum on (production) or both off
	SimplePr  bool // progress of every peer in unpaused probe state (state machine of replication is not the subject)
	RichOne   bool // with SimplePr off: only voter 2 (and the learner) has an arbitrary replication state, the other peers are simple
	ConcIdx   bool // the snapshot (dummy) index is one of two concrete values (0 or 7) instead of symbolic: all log indexes are then concrete
}

const vMaxIdx = uint64(1) << 40 // indexes and terms stay far from wrap-around (stated bound)

type vRaft struct {
	r       *raft
	st      *MemoryStorage
	shape   vShape
	voters  []uint64
	all     []uint64 // voters + learner
	snapIdx uint64
}

func vGroup(id uint64) pb.Group {
	return pb.Group{NodeId: id, Name: "g", GroupId: 7, RaftReplicaId: id}
}

func vMkRaft(s vShape) *vRaft {
	st := NewRealMemoryStorage()
	v := &vRaft{st: st, shape: s}
	self := uint64(1)
	if s.SelfLearn {
		self = uint64(s.N + 1)
	}
	term := vsym.U64("Term")
	vsym.Assume(term < vMaxIdx)
	// ---- log ----
	var snapIdx uint64
	if s.ConcIdx {
		snapIdx = uint64(7 * vsym.Choose("snap.index.c", 2))
	} else {
		snapIdx = vsym.U64("snap.index")
	}
	snapTerm := vsym.U64("snap.term")
	vsym.Assume(snapIdx < vMaxIdx)
	vsym.Assume(snapTerm <= term)
	vsym.Assume(vsym.Implies(snapIdx == 0, snapTerm == 0))
	vsym.Assume(vsym.Implies(snapIdx > 0, snapTerm > 0))
	v.snapIdx = snapIdx
	st.ents[0] = pb.Entry{Index: snapIdx, Term: snapTerm}
	st.snapshot.Metadata.Index = snapIdx
	st.snapshot.Metadata.Term = snapTerm
	prevT := snapTerm
	for i := 0; i < s.NStored; i++ {
		t := vsym.U64("ent.term")
		vsym.Assume(t >= prevT && t <= term && t > 0)
		prevT = t
		st.ents = append(st.ents, pb.Entry{Index: snapIdx + uint64(i) + 1, Term: t, Data: []byte{byte(i)}})
	}
	lastStored := snapIdx + uint64(s.NStored)
	logger := Logger(discardLogger)
	rl := &raftLog{storage: st, logger: logger, maxNextEntsSize: noLimit}
	rl.unstable.logger = logger
	rl.unstable.offset = lastStored + 1
	for i := 0; i < s.NUnstable; i++ {
		t := vsym.U64("uent.term")
		vsym.Assume(t >= prevT && t <= term && t > 0)
		prevT = t
		rl.unstable.entries = append(rl.unstable.entries, pb.Entry{Index: lastStored + uint64(i) + 1, Term: t, Data: []byte{byte(16 + i)}})
	}
	last := lastStored + uint64(s.NUnstable)
	rl.committed = vsym.U64("committed")
	rl.applied = vsym.U64("applied")
	vsym.Assume(rl.committed <= last && rl.committed >= snapIdx)
	vsym.Assume(rl.applied <= rl.committed && rl.applied >= snapIdx)
	// ---- raft ----
	r := &raft{
		id: self, group: vGroup(self), Term: term, raftLog: rl,
		maxInflight: 2, maxMsgSize: noLimit,
		prs: map[uint64]*Progress{}, learnerPrs: map[uint64]*Progress{},
		votes: map[uint64]bool{}, logger: logger,
		checkQuorum: s.Prod, preVote: s.Prod,
		heartbeatTimeout: 1, electionTimeout: 10,
		readOnly: newReadOnly(ReadOnlySafe),
	}
	r.Vote = vsym.U64("Vote")
	r.lead = vsym.U64("lead")
	r.electionElapsed = vsym.Int("electionElapsed")
	vsym.Assume(r.electionElapsed >= 0 && r.electionElapsed < 1000)
	r.heartbeatElapsed = vsym.Int("heartbeatElapsed")
	vsym.Assume(r.heartbeatElapsed >= 0 && r.heartbeatElapsed < 1000)
	r.randomizedElectionTimeout = vsym.Int("randomizedElectionTimeout")
	vsym.Assume(r.randomizedElectionTimeout >= 10 && r.randomizedElectionTimeout < 20)
	r.pendingConf = vsym.Bool("pendingConf")
	for i := 1; i <= s.N; i++ {
		id := uint64(i)
		v.voters = append(v.voters, id)
		v.all = append(v.all, id)
		r.prs[id] = vMkProgress(id, last, false, s.SimplePr || (s.RichOne && id != 2))
	}
	if s.Learner {
		id := uint64(s.N + 1)
		v.all = append(v.all, id)
		r.learnerPrs[id] = vMkProgress(id, last, true, s.SimplePr)
	}
	r.isLearner = s.SelfLearn
	r.state = s.Role
	switch s.Role {
	case StateFollower:
		r.step = stepFollower
		r.tick = r.tickElection
	case StateCandidate, StatePreCandidate:
		r.step = stepCandidate
		r.tick = r.tickElection
	case StateLeader:
		r.step = stepLeader
		r.tick = r.tickHeartbeat
	}
	// RI: role facts
	if s.Role == StateCandidate || s.Role == StateLeader {
		vsym.Assume(r.Vote == self)
		vsym.Assume(term > 0)
	}
	if s.Role == StateLeader {
		vsym.Assume(r.lead == self)
		vsym.Assume(r.getProgress(self).Match == last)
		r.leadTransferee = vsym.U64("leadTransferee")
	}
	if s.Role == StateCandidate || s.Role == StatePreCandidate {
		vsym.Assume(r.lead == None)
	}
	v.r = r
	return v
}

func vMkProgress(id uint64, last uint64, learner bool, simple bool) *Progress {
	p := &Progress{ins: newInflights(2), group: vGroup(id), IsLearner: learner}
	p.Match = vsym.U64("pr.match")
	p.Next = vsym.U64("pr.next")
	vsym.Assume(p.Match <= last)
	vsym.Assume(p.Next > p.Match && p.Next <= last+1)
	if simple {
		// replication state is not the subject: the peer is assumed caught up in Next (probe state, unpaused)
		vsym.Assume(p.Next == last+1)
		p.RecentActive = vsym.Bool("pr.active")
		return p
	}
	st := vsym.U64("pr.state")
	vsym.Assume(st < 3)
	p.State = ProgressStateType(st)
	p.Paused = vsym.Bool("pr.paused")
	p.RecentActive = vsym.Bool("pr.active")
	p.PendingSnapshot = vsym.U64("pr.pendingsnap")
	vsym.Assume(p.PendingSnapshot <= last)
	vsym.Assume(vsym.Implies(p.State != ProgressStateSnapshot, p.PendingSnapshot == 0))
	return p
}

func (v *vRaft) last() uint64 { return v.r.raftLog.lastIndex() }

func (v *vRaft) isVoter(id uint64) bool {
	ok := false
	for _, x := range v.voters {
		ok = vsym.Or(ok, id == x)
	}
	return ok
}

// vSymMessage builds an arbitrary message addressed to the replica.
func vSymMessage(v *vRaft, typ pb.MessageType, nEnts int) pb.Message {
	var m pb.Message
	// the type is a structural choice of the caller: every type switch downstream is then concrete
	m.Type = typ
	m.To = v.r.id
	m.From = vsym.U64("m.from")
	m.Term = vsym.U64("m.term")
	vsym.Assume(m.Term < vMaxIdx)
	m.LogTerm = vsym.U64("m.logterm")
	m.Index = vsym.U64("m.index")
	vsym.Assume(m.Index < vMaxIdx)
	m.Commit = vsym.U64("m.commit")
	vsym.Assume(m.Commit < vMaxIdx)
	m.Reject = vsym.Bool("m.reject")
	m.RejectHint = vsym.U64("m.rejecthint")
	vsym.Assume(m.RejectHint < vMaxIdx)
	m.FromGroup = vGroup(m.From)
	m.ToGroup = v.r.group
	pt := m.LogTerm
	for i := 0; i < nEnts; i++ {
		et := vsym.U64("m.ent.term")
		vsym.Assume(et >= pt && et <= m.Term && et >= 1)
		pt = et
		m.Entries = append(m.Entries, pb.Entry{Index: m.Index + uint64(i) + 1, Term: et, Data: []byte{byte(32 + i)}})
	}
	return m
}

// vLogRI asserts the log part of the representation invariant on the post-state.
func vLogRI(v *vRaft, tag string) {
	rl := v.r.raftLog
	last := rl.lastIndex()
	vsym.Assert(rl.committed <= last, tag+": committed <= lastIndex")
	vsym.Assert(rl.applied <= rl.committed, tag+": applied <= committed")
	// storage contiguous
	st := v.st
	for i := 1; i < len(st.ents); i++ {
		vsym.Assert(st.ents[i].Index == st.ents[0].Index+uint64(i), tag+": storage entries contiguous")
		vsym.Assert(st.ents[i].Term >= st.ents[i-1].Term, tag+": storage terms non-decreasing")
	}
	u := &rl.unstable
	for i := range u.entries {
		vsym.Assert(u.entries[i].Index == u.offset+uint64(i), tag+": unstable entries contiguous from offset")
		vsym.Assert(u.entries[i].Term <= v.r.Term, tag+": entry term <= current term")
		if i > 0 {
			vsym.Assert(u.entries[i].Term >= u.entries[i-1].Term, tag+": unstable terms non-decreasing")
		}
	}
	if u.snapshot == nil {
		vsym.Assert(u.offset <= st.ents[0].Index+uint64(len(st.ents)), tag+": no gap between storage and unstable")
		vsym.Assert(u.offset > st.ents[0].Index, tag+": unstable does not reach below the snapshot")
	}
}


// vAssumeWellFormed states what every message that can be in flight satisfies. Each clause is either
// established for emitted messages by the B6/A3 obligations (per-sender facts) or is a consequence of
// the global raft invariants that this component-level check does not decide (marked GLOBAL); the
// clauses are listed in DESIGN.md section 3 and in the evidence assumptions.
func vAssumeWellFormed(v *vRaft, m *pb.Message) {
	r := v.r
	rl := r.raftLog
	last := rl.lastIndex()
	t := m.Type
	// messages produced by a leader carry its term and come from another voter
	fromLeader := vsym.Or(t == pb.MsgApp, vsym.Or(t == pb.MsgHeartbeat, vsym.Or(t == pb.MsgSnap, t == pb.MsgTimeoutNow)))
	vsym.Assume(vsym.Implies(fromLeader, vsym.And(m.Term >= 1, vsym.And(m.From != r.id, v.isVoter(m.From)))))
	// GLOBAL (election safety itself): a leader never hears from another leader of its own term
	vsym.Assume(vsym.Implies(vsym.And(fromLeader, r.state == StateLeader), m.Term != r.Term))
	// MsgApp: prev (index, term) names a real log position; LogTerm <= sender's term
	vsym.Assume(vsym.Implies(t == pb.MsgApp, vsym.And(vsym.Implies(m.Index > 0, m.LogTerm > 0), m.LogTerm <= m.Term)))
	vsym.Assume(vsym.Implies(t == pb.MsgApp, vsym.Implies(m.Index == 0, m.LogTerm == 0)))
	// GLOBAL (Leader Completeness): a current-or-newer leader's entries agree with what is committed here
	for i := range m.Entries {
		e := &m.Entries[i]
		lt, err := rl.term(e.Index)
		if err == nil {
			vsym.Assume(vsym.Implies(vsym.And(t == pb.MsgApp, vsym.And(m.Term >= r.Term, e.Index <= rl.committed)), e.Term == lt))
		}
	}
	// GLOBAL: the prev position of an append from a current-or-newer leader, if committed here, matches
	if lt, err := rl.term(m.Index); err == nil {
		vsym.Assume(vsym.Implies(vsym.And(t == pb.MsgApp, vsym.And(m.Term >= r.Term, vsym.And(m.Index <= rl.committed, m.Index >= v.snapIdx))), m.LogTerm == lt))
	}
	// GLOBAL: a heartbeat's commit is min(leader's Match for us, leader's commit) and we never lose acknowledged entries
	vsym.Assume(vsym.Implies(vsym.And(t == pb.MsgHeartbeat, m.Term >= r.Term), m.Commit <= last))
	// GLOBAL: what a leader commits is on a quorum; an append's commit index never exceeds what exists at the sender
	// (commitTo(min(m.Commit, lastnew)) makes larger values harmless; nothing to assume)
	// vote requests: I5b
	isVoteReq := vsym.Or(t == pb.MsgVote, t == pb.MsgPreVote)
	vsym.Assume(vsym.Implies(isVoteReq, vsym.And(m.Term >= 1, m.From != r.id)))
	// proposals carry at least one entry (node.Propose / forwarded MsgProp); read-index requests exactly one
	if len(m.Entries) == 0 {
		vsym.Assume(t != pb.MsgProp)
	}
	if len(m.Entries) != 1 {
		vsym.Assume(t != pb.MsgReadIndex)
	}
	// responses are built by send(), which stamps the sender's term (>= 1 once it has heard of any term)
	isResp := vsym.Or(t == pb.MsgVoteResp, vsym.Or(t == pb.MsgPreVoteResp, vsym.Or(t == pb.MsgAppResp, t == pb.MsgHeartbeatResp)))
	vsym.Assume(vsym.Implies(isResp, m.Term >= 1))
	// GLOBAL: a forwarded MsgTransferLeader (non-zero term) is addressed to the leader of that term
	vsym.Assume(vsym.Implies(vsym.And(t == pb.MsgTransferLeader, vsym.And(m.Term != 0, m.Term == r.Term)), vsym.Or(r.state == StateLeader, r.lead == None)))
	// a replica never sends replication or vote messages to itself (its own vote is polled directly), so no response comes from itself
	vsym.Assume(vsym.Implies(isResp, m.From != r.id))
	// GLOBAL (acknowledged entries are persistent): a follower never rejects a previous index it has already acknowledged, and its last index (the hint) is at least what it acknowledged
	for _, id := range v.all {
		if pr := r.getProgress(id); pr != nil {
			vsym.Assume(vsym.Implies(vsym.And(t == pb.MsgAppResp, vsym.And(m.Reject, vsym.And(m.Term == r.Term, m.From == id))), vsym.And(m.Index > pr.Match, m.RejectHint >= pr.Match)))
		}
	}
	// responses to a leader acknowledge only what it sent: index within its log (per-term, GLOBAL)
	vsym.Assume(vsym.Implies(vsym.And(t == pb.MsgAppResp, m.Term == r.Term), vsym.And(m.Index <= last, m.RejectHint <= last)))
	// local report messages name a peer and have no term
	isLocal := vsym.Or(t == pb.MsgHup, vsym.Or(t == pb.MsgBeat, vsym.Or(t == pb.MsgCheckQuorum, vsym.Or(t == pb.MsgSnapStatus, t == pb.MsgUnreachable))))
	vsym.Assume(vsym.Implies(isLocal, m.Term == 0))
	vsym.Assume(vsym.Implies(t == pb.MsgProp, m.Term == 0))
	vsym.Assume(vsym.Implies(t == pb.MsgReadIndex, m.Term == 0))
}
