//go:build verif

package raft

import (
	pb "github.com/youzan/ZanRedisDB/raft/raftpb"
	"vsym"
)

// C01 - at most one leader per term: one-step inductive invariant on one real replica
// (DESIGN.md section 3). Ghost state: for an arbitrary fixed term T, votedIn[j] is the
// replica j voted for in T (0 = nobody yet).

type c01Ghost struct {
	T       uint64
	votedIn []uint64 // indexed by replica id, 1..N+1
}

// maxN == 0: the quick shape list regardless of the tier (used where this step invariant is a re-checked premise).
func c01Shape(maxN int) vShape {
	// one flat choice so that the exploration can be split across workers on the first decision.
	// quick: N = 1..3, a learner exists only for N = 2 (and in the self-is-learner shape);
	// thorough: the same with both flag settings, plus 4 and 5 voters as candidate and leader.
	roles := []StateType{StateFollower, StatePreCandidate, StateCandidate, StateLeader}
	s := vShape{Prod: true, SimplePr: true}
	if vsym.Thorough() && maxN != 0 {
		// quick's 15 shapes with pre-vote/check-quorum on and off (30), plus 4 and 5 voters as candidate and
		// leader (4). (The full product N=1..5 x learner x role x flags, 100 shapes, ran for more than an hour.)
		k := vsym.Choose("shape", 34)
		if k >= 30 {
			k -= 30
			s.N = 4 + k%2
			s.Role = []StateType{StateCandidate, StateLeader}[k/2]
			return s
		}
		s.Prod = k < 15
		k %= 15
		s.N = 1 + k%3
		k /= 3
		s.Learner = s.N == 2
		if k == 4 {
			s.Learner, s.SelfLearn, s.Role = true, true, StateFollower
		} else {
			s.Role = roles[k]
		}
	} else {
		k := vsym.Choose("shape", 3*5)
		s.N = 1 + k%3
		k /= 3
		s.Learner = s.N == 2
		if k == 4 {
			s.Learner, s.SelfLearn, s.Role = true, true, StateFollower
		} else {
			s.Role = roles[k]
		}
	}
	return s
}

// c01LogShape chooses how many entries the log has; rich = the log matters for the step (elections compare logs).
func c01LogShape(s *vShape, rich bool) {
	if !rich {
		return
	}
	if vsym.Thorough() {
		switch vsym.Choose("log", 3) {
		case 1:
			s.NStored = 1
		case 2:
			s.NStored, s.NUnstable = 1, 1
		}
	} else if vsym.Choose("log", 2) == 1 {
		s.NStored, s.NUnstable = 1, 1
	}
}

func c01Setup(v *vRaft) *c01Ghost { return c01SetupV(v, true) }

// c01SetupV: symVotes = the recorded answers of a (pre-)candidate are arbitrary; otherwise only its own vote is recorded
// (what is recorded matters only when a vote response is processed; any other step either keeps or resets the map).
func c01SetupV(v *vRaft, symVotes bool) *c01Ghost {
	r := v.r
	g := &c01Ghost{T: vsym.U64("T"), votedIn: make([]uint64, v.shape.N+2)}
	vsym.Assume(g.T > 0 && g.T < vMaxIdx)
	for i := 1; i <= v.shape.N+1; i++ {
		g.votedIn[i] = vsym.U64("votedIn")
	}
	self := int(r.id)
	// I1
	vsym.Assume(vsym.Implies(r.Term == g.T, g.votedIn[self] == r.Vote))
	vsym.Assume(vsym.Implies(r.Term < g.T, g.votedIn[self] == 0))
	// a learner never voted
	if v.shape.Learner {
		vsym.Assume(g.votedIn[v.shape.N+1] == 0)
	}
	// votes of a (pre-)candidate: arbitrary subset of the universe with arbitrary values ...
	if r.state == StateCandidate || r.state == StatePreCandidate {
		for i := 1; i <= v.shape.N+1; i++ {
			if i == self {
				// campaign() polled the own vote first
				r.votes[r.id] = true
				continue
			}
			if i == v.shape.N+1 && !v.shape.Learner {
				continue
			}
			// quick tier: recorded answers are arbitrary for one other voter (and the learner id); further
			// voters have not answered yet (voters other than self are interchangeable)
			if !vsym.Thorough() && i > 2 && i <= v.shape.N {
				continue
			}
			if !symVotes {
				continue
			}
			if vsym.Choose("votes.has", 2) == 1 {
				val := vsym.Bool("votes.val")
				r.votes[uint64(i)] = val
				if r.state == StateCandidate {
					// I3: ... but a recorded grant at T is backed by the voter's ghost vote
					ok := vsym.And(i <= v.shape.N, g.votedIn[i] == r.id)
					vsym.Assume(vsym.Implies(vsym.And(val, r.Term == g.T), ok))
				}
			}
		}
	}
	// I4
	if r.state == StateLeader {
		vsym.Assume(vsym.Implies(r.Term == g.T, c01Count(v, g, g.votedIn[self]) >= r.quorum()))
	}
	return g
}

// c01Count counts voters whose ghost vote in T is for self; selfVote is the value to use for self.
func c01Count(v *vRaft, g *c01Ghost, selfVote uint64) int {
	n := 0
	for i := 1; i <= v.shape.N; i++ {
		x := g.votedIn[i]
		if uint64(i) == v.r.id {
			x = selfVote
		}
		n += vsym.IteInt(x == v.r.id, 1, 0)
	}
	return n
}

type c01Pre struct {
	term, vote uint64
}

func c01Check(v *vRaft, g *c01Ghost, pre c01Pre, tag string) {
	r := v.r
	self := int(r.id)
	vsym.Assert(r.Term >= pre.term, tag+": A1 term never decreases")
	vsym.Assert(vsym.Implies(vsym.And(r.Term == pre.term, pre.vote != None), r.Vote == pre.vote), tag+": A2 one vote per term")
	// ghost update for self
	newSelf := vsym.IteU64(r.Term == g.T, r.Vote, g.votedIn[self])
	vsym.Assert(vsym.Implies(g.votedIn[self] != 0, newSelf == g.votedIn[self]), tag+": a vote cast in T is never changed")
	vsym.Assert(vsym.Implies(r.Term < g.T, newSelf == 0), tag+": I1 below T nobody was voted for")
	// A3 emitted vote grants
	for i := range r.msgs {
		m := &r.msgs[i]
		if m.Type == pb.MsgVoteResp {
			grant := !m.Reject
			vsym.Assert(vsym.Implies(grant, m.Term == r.Term), tag+": A3 a vote grant carries the voter's term")
			vsym.Assert(vsym.Implies(grant, r.Vote == m.To), tag+": A3 a vote grant goes to the recorded vote")
			vsym.Assert(vsym.Implies(grant, !r.isLearner), tag+": A3 learners never grant votes")
			vsym.Assert(vsym.Implies(grant, v.isVoter(r.id)), tag+": A3 only voters grant votes")
		}
		if m.Type == pb.MsgVote || m.Type == pb.MsgPreVote {
			vsym.Assert(m.Term >= 1, tag+": vote requests carry a term")
			vsym.Assert(!r.isLearner, tag+": learners never campaign")
		}
	}
	// A4
	if r.state == StateLeader {
		vsym.Assert(vsym.Implies(r.Term == g.T, c01Count(v, g, newSelf) >= r.quorum()), tag+": A4 a leader in T holds a quorum of T's votes")
		vsym.Assert(r.Vote == r.id && r.lead == r.id, tag+": leader voted for itself and leads")
		vsym.Assert(!r.isLearner, tag+": I6 a learner is never leader")
		vsym.Reach("leader")
	}
	// A5
	if r.state == StateCandidate {
		vsym.Assert(r.Vote == r.id, tag+": candidate voted for itself")
		vsym.Assert(!r.isLearner, tag+": I6 a learner is never candidate")
		for id, val := range r.votes {
			ghost := uint64(0)
			known := false
			for i := 1; i <= v.shape.N; i++ {
				is := id == uint64(i)
				x := g.votedIn[i]
				if i == self {
					x = newSelf
				}
				ghost = vsym.IteU64(is, x, ghost)
				known = vsym.Or(known, is)
			}
			vsym.Assert(vsym.Implies(vsym.And(val, r.Term == g.T), vsym.And(known, ghost == r.id)), tag+": A5 recorded grants are backed by voters' votes")
		}
	}
	if r.state == StatePreCandidate {
		vsym.Assert(!r.isLearner, tag+": I6 a learner is never pre-candidate")
	}
}

// Step with an arbitrary incoming message (through the node-level filter).
func Verif_C01_Step() {
	c01StepBody(vsym.Thorough(), 3)
	vsym.Reach("done")
}

// The same step invariant on the quick shape list in both tiers: the premise C02 re-checks.
func Verif_C02_P_ElectionSafetyStep() {
	c01StepBody(false, 0)
	vsym.Reach("done")
}

func c01StepBody(rich bool, maxN int) {
	s := c01Shape(maxN)
	typ := pb.MessageType(vsym.Choose("m.type", 19))
	// what the step can depend on: elections compare logs; vote responses read the recorded answers
	election := typ == pb.MsgHup || typ == pb.MsgVote || typ == pb.MsgVoteResp || typ == pb.MsgPreVote || typ == pb.MsgPreVoteResp ||
		typ == pb.MsgTimeoutNow || typ == pb.MsgTransferLeader || typ == pb.MsgCheckQuorum
	c01LogShape(&s, election || rich)
	v := vMkRaft(s)
	g := c01SetupV(v, typ == pb.MsgVoteResp || typ == pb.MsgPreVoteResp || rich)
	r := v.r
	nents := 0
	switch typ {
	case pb.MsgProp, pb.MsgReadIndex, pb.MsgReadIndexResp:
		nents = 1
	case pb.MsgApp:
		nents = vsym.Choose("nents", 2)
	}
	m := vSymMessage(v, typ, nents)
	// I5: an in-flight vote grant for T is backed by the sender's ghost vote
	isGrant := vsym.And(m.Type == pb.MsgVoteResp, vsym.And(!m.Reject, m.Term == g.T))
	ghostFrom := uint64(0)
	for i := 1; i <= s.N; i++ {
		ghostFrom = vsym.IteU64(m.From == uint64(i), g.votedIn[i], ghostFrom)
	}
	vsym.Assume(vsym.Implies(isGrant, vsym.And(v.isVoter(m.From), ghostFrom == r.id)))
	vAssumeWellFormed(v, &m)
	// snapshot messages are covered by C02/C03 harnesses (restore changes membership from the snapshot)
	vsym.Assume(m.Type != pb.MsgSnap)
	pre := c01Pre{r.Term, r.Vote}
	n := &node{}
	n.handleReceivedMessage(r, m)
	c01Check(v, g, pre, "step")
	vsym.Reach("end")
}

// tick in every role.
func Verif_C01_Tick() {
	s := c01Shape(3)
	c01LogShape(&s, true)
	v := vMkRaft(s)
	g := c01Setup(v)
	r := v.r
	pre := c01Pre{r.Term, r.Vote}
	r.tick()
	c01Check(v, g, pre, "tick")
	vsym.Reach("end")
}

// A6: restart from persisted hard state keeps Term and Vote, comes back as follower with no votes.
func Verif_C01_Restart() {
	s := c01Shape(3)
	c01LogShape(&s, true)
	v := vMkRaft(s)
	r := v.r
	hs := r.hardState()
	st := v.st
	// persist what the Ready contract says: unstable entries, then hard state
	if len(r.raftLog.unstable.entries) > 0 {
		vsym.Assert(st.Append(r.raftLog.unstable.entries) == nil, "append")
	}
	st.SetHardState(hs)
	var peers []pb.Group
	for _, id := range v.voters {
		peers = append(peers, vGroup(id))
	}
	var learners []pb.Group
	if s.Learner {
		learners = append(learners, vGroup(uint64(s.N+1)))
	}
	c := &Config{ID: r.id, Group: r.group, peers: peers, learners: learners, ElectionTick: 10, HeartbeatTick: 1, Storage: st,
		MaxSizePerMsg: noLimit, MaxInflightMsgs: 2, CheckQuorum: true, PreVote: true, Logger: r.logger}
	r2 := newRaft(c)
	vsym.Assert(r2.Term == r.Term, "A6 term survives restart")
	vsym.Assert(r2.Vote == r.Vote, "A6 vote survives restart")
	vsym.Assert(r2.state == StateFollower, "A6 restart comes back as follower")
	vsym.Assert(len(r2.votes) == 0, "A6 no recorded votes after restart")
	vsym.Assert(r2.isLearner == r.isLearner, "A6 learner flag survives restart")
	vsym.Assert(r2.raftLog.committed == r.raftLog.committed, "commit index survives restart")
	vsym.Assert(r2.raftLog.lastIndex() == r.raftLog.lastIndex(), "last index survives restart")
	vsym.Reach("end")
}

// Quorum intersection: two sets of voters, each a quorum, voting for different candidates cannot both exist
// when every voter votes once - the arithmetic fact I4 relies on, for N = 1..5.
func Verif_C01_QuorumIntersection() {
	n := 1 + vsym.Choose("n", 5)
	q := n/2 + 1
	a, b := 0, 0
	x := vsym.U64("x")
	y := vsym.U64("y")
	vsym.Assume(x != y && x != 0 && y != 0)
	for i := 0; i < n; i++ {
		vi := vsym.U64("votedIn")
		a += vsym.IteInt(vi == x, 1, 0)
		b += vsym.IteInt(vi == y, 1, 0)
	}
	vsym.Assert(!(a >= q && b >= q), "two different candidates cannot both hold a quorum of single votes")
	// and the code's quorum() is this q
	r := &raft{prs: map[uint64]*Progress{}}
	for i := 1; i <= n; i++ {
		r.prs[uint64(i)] = &Progress{}
	}
	vsym.Assert(r.quorum() == q, "quorum() is a strict majority of the voters")
	vsym.Reach("end")
}
