//go:build verif

package raft

import (
	pb "github.com/youzan/ZanRedisDB/raft/raftpb"
	"vsym"
)

// C03 - a committed entry survives crash/restart (component level, DESIGN.md section 3):
// D1 crash right after the persist step of any raft step: what the Ready contract makes the application
//    persist (snapshot, entries, hard state - with the real MemoryStorage methods) is enough to rebuild,
//    with the real newRaft, a replica with the same Term, Vote, commit index and log.
// D2 Ready/MustSync/Advance bookkeeping.
// D3 MemoryStorage.Append/Compact/CreateSnapshot/ApplySnapshot against a list model.

// vPersist does what the application must do with a Ready before sending its messages.
func vPersist(v *vRaft, rd Ready) {
	st := v.st
	if !IsEmptySnap(rd.Snapshot) {
		vsym.Assert(st.ApplySnapshot(rd.Snapshot) == nil, "persist: snapshot accepted by the storage")
	}
	vsym.Assert(st.Append(rd.Entries) == nil, "persist: entries accepted by the storage")
	if !IsEmptyHardState(rd.HardState) {
		st.SetHardState(rd.HardState)
	}
}

// vRestart rebuilds the replica from its storage alone.
func vRestart(v *vRaft, withPeers bool) *raft {
	r := v.r
	var peers, learners []pb.Group
	if withPeers {
		for _, id := range v.voters {
			peers = append(peers, vGroup(id))
		}
		if v.shape.Learner {
			learners = append(learners, vGroup(uint64(v.shape.N+1)))
		}
	}
	c := &Config{ID: r.id, Group: r.group, peers: peers, learners: learners, ElectionTick: 10, HeartbeatTick: 1, Storage: v.st,
		MaxSizePerMsg: noLimit, MaxInflightMsgs: 2, CheckQuorum: r.checkQuorum, PreVote: r.preVote, Logger: r.logger}
	return newRaft(c)
}

// vSameLog: both logs have the same entries (term at every index from the dummy to the last).
func vSameLog(a, b *raftLog, maxEnts int, tag string) {
	vsym.Assert(a.lastIndex() == b.lastIndex(), tag+": same last index")
	first := a.firstIndex()
	vsym.Assert(first == b.firstIndex(), tag+": same first index")
	for k := 0; k <= maxEnts; k++ {
		idx := first - 1 + uint64(k)
		ta, ea := a.term(idx)
		tb, eb := b.term(idx)
		vsym.Assert((ea == nil) == (eb == nil), tag+": same availability at every index")
		vsym.Assert(ta == tb, tag+": same term at every index")
	}
}

func c03Step(v *vRaft, typ pb.MessageType) {
	r := v.r
	nents := 0
	switch typ {
	case pb.MsgProp, pb.MsgReadIndex, pb.MsgReadIndexResp:
		nents = 1
	case pb.MsgApp:
		if vsym.Thorough() || v.shape.NStored > 1 {
			nents = vsym.Choose("nents", 3)
		} else {
			nents = vsym.Choose("nents", 2)
		}
	}
	m := vSymMessage(v, typ, nents)
	vAssumeWellFormed(v, &m)
	n := &node{}
	n.handleReceivedMessage(r, m)
}

// c03Shape: 3 voters + learner in every role, self as learner, and the single-voter group as follower
// and leader; thorough adds the two-voter group as follower and leader.
func c03Shape() vShape {
	s := vShape{Prod: true, SimplePr: true, N: 3, Learner: true}
	nshapes := 7
	if vsym.Thorough() {
		nshapes = 9 // + two voters without learner as follower and leader (C01's full shape list ran for more than an hour)
	}
	switch k := vsym.Choose("shape", nshapes); k {
	case 7:
		s.N, s.Learner, s.Role = 2, false, StateFollower
	case 8:
		s.N, s.Learner, s.Role = 2, false, StateLeader
	case 0, 1, 2, 3:
		s.Role = []StateType{StateFollower, StatePreCandidate, StateCandidate, StateLeader}[k]
	case 4:
		s.SelfLearn, s.Role = true, StateFollower
	case 5:
		s.N, s.Learner, s.Role = 1, false, StateFollower
	default:
		s.N, s.Learner, s.Role = 1, false, StateLeader
	}
	return s
}

func Verif_C03_D1_StepPersistRestart() {
	s := c03Shape()
	// 19 message types (MsgSnap has its own harness) + tick
	k := vsym.Choose("step", 19)
	c03D1(s, k, true)
	vsym.Reach("done")
}

// A7 (C01): a vote is on stable storage before its grant leaves - the steps that can change Term or Vote
// (vote requests, campaign triggers, tick), through Ready -> persist -> crash -> newRaft.
func Verif_C01_A7_VoteSurvivesCrash() {
	s := c03Shape()
	steps := []int{int(pb.MsgVote), int(pb.MsgPreVote), int(pb.MsgHup), int(pb.MsgTimeoutNow), int(pb.MsgSnap) /* = tick */, int(pb.MsgHeartbeat)}
	c03D1(s, steps[vsym.Choose("step", len(steps))], false)
	vsym.Reach("done")
}

func c03D1(s vShape, k int, full bool) {
	c01LogShape(&s, full)
	s.ConcIdx = true // (a symbolic snapshot index triples the time per path: outside the claim in both tiers)
	v := vMkRaft(s)
	r := v.r
	// the pre-state's persistent part is on storage (what an earlier Ready/persist round left there)
	prevHard := r.hardState()
	v.st.SetHardState(prevHard)
	prevSoft := r.softState()
	preCommitted := r.raftLog.committed
	if k == int(pb.MsgSnap) {
		r.tick()
	} else {
		c03Step(v, pb.MessageType(k))
	}
	rd := newReady(r, prevSoft, prevHard, true)
	// ---- D2: what the Ready says ----
	now := r.hardState()
	changed := !isHardStateEqual(now, prevHard)
	vsym.Assert(IsEmptyHardState(rd.HardState) == !changed, "D2: the hard state is handed out iff Term, Vote or Commit changed")
	if !IsEmptyHardState(rd.HardState) {
		vsym.Assert(isHardStateEqual(rd.HardState, now), "D2: the hard state handed out is the current one")
	}
	vsym.Assert(rd.MustSync == (len(rd.Entries) != 0 || now.Vote != prevHard.Vote || now.Term != prevHard.Term), "D2: MustSync iff entries, Term or Vote changed")
	ue := r.raftLog.unstable.entries
	vsym.Assert(len(rd.Entries) == len(ue), "D2: Ready.Entries are all unstable entries")
	for i := range rd.Entries {
		if i < len(ue) {
			vsym.Assert(rd.Entries[i].Index == ue[i].Index && rd.Entries[i].Term == ue[i].Term, "D2: Ready.Entries are the unstable entries in order")
		}
	}
	vsym.Assert(r.raftLog.committed >= preCommitted, "commit index never decreases")
	// a granted vote or an accepted append leaves only after a synchronous persist
	for i := range rd.Messages {
		m := &rd.Messages[i]
		if m.Type == pb.MsgVoteResp && !m.Reject {
			vsym.Assert(vsym.Implies(now.Vote != prevHard.Vote || now.Term != prevHard.Term, rd.MustSync && !IsEmptyHardState(rd.HardState)), "D2: a new vote is in the Ready that carries its grant, with MustSync")
		}
	}
	// ---- D1: persist, crash, rebuild from storage alone ----
	vPersist(v, rd)
	r2 := vRestart(v, true)
	vsym.Assert(r2.Term == r.Term, "D1: Term survives a crash after persist")
	vsym.Assert(r2.Vote == r.Vote, "D1: Vote survives a crash after persist")
	vsym.Assert(r2.raftLog.committed == r.raftLog.committed, "D1: the commit index survives a crash after persist")
	if !full {
		vsym.Reach("end")
		return
	}
	vSameLog(r.raftLog, r2.raftLog, s.NStored+s.NUnstable+3, "D1")
	vsym.Assert(r2.state == StateFollower && r2.lead == None, "D1: comes back as follower without leader")
	// ---- D2: Advance ----
	nd := &node{r: r, prevS: &prevState{prevSoftSt: prevSoft, prevHardSt: prevHard}}
	lastHanded := rd.appliedCursor()
	nd.Advance(rd)
	vsym.Assert(len(r.raftLog.unstable.entries) == 0, "D2: Advance drops exactly the persisted unstable entries")
	vsym.Assert(r.raftLog.unstable.offset == r.raftLog.lastIndex()+1, "D2: unstable offset is one past the last index after Advance")
	vsym.Assert(isHardStateEqual(nd.prevS.prevHardSt, now), "D2: the remembered hard state is the one persisted")
	if lastHanded != 0 {
		vsym.Assert(r.raftLog.applied == lastHanded, "D2: applied cursor = last index handed out")
	}
	vLogRI(v, "after advance")
	rd2 := newReady(r, nd.prevS.prevSoftSt, nd.prevS.prevHardSt, true)
	vsym.Assert(len(rd2.Entries) == 0 && IsEmptyHardState(rd2.HardState) && !rd2.MustSync, "D2: nothing left to persist after Advance")
	if len(rd2.CommittedEntries) > 0 {
		vsym.Assert(rd2.CommittedEntries[0].Index == r.raftLog.applied+1, "D2: the next batch to apply starts right after the applied cursor")
	}
	vsym.Reach("end")
}

// D3: MemoryStorage.Append / Term / Compact / CreateSnapshot against a list model.
func Verif_C03_D3_MemoryStorage() {
	st := NewRealMemoryStorage()
	base := vsym.U64("base")
	vsym.Assume(base < vMaxIdx)
	baseTerm := vsym.U64("baseterm")
	st.ents[0] = pb.Entry{Index: base, Term: baseTerm}
	st.snapshot.Metadata.Index = base
	st.snapshot.Metadata.Term = baseTerm
	n := vsym.Choose("stored", 3)
	type ent struct{ i, t uint64 }
	var model []ent
	pt := baseTerm
	for k := 0; k < n; k++ {
		t := vsym.U64("t")
		vsym.Assume(t >= pt)
		pt = t
		st.ents = append(st.ents, pb.Entry{Index: base + uint64(k) + 1, Term: t})
		model = append(model, ent{base + uint64(k) + 1, t})
	}
	last := base + uint64(n)
	switch vsym.Choose("op", 3) {
	case 0: // Append
		m := 1 + vsym.Choose("new", 2)
		start := vsym.U64("start")
		vsym.Assume(start >= 1 && start <= last+1 && start+4 > base) // no gap (a gap is a documented panic); may reach into the compacted prefix
		var es []pb.Entry
		for k := 0; k < m; k++ {
			es = append(es, pb.Entry{Index: start + uint64(k), Term: vsym.U64("nt")})
		}
		vsym.Assert(st.Append(es) == nil, "D3: Append succeeds")
		// model: keep entries below the first new index, then the new ones; what lies at or below the dummy is ignored
		lastNew := start + uint64(m) - 1
		if lastNew <= base {
			vsym.Assert(len(st.ents) == n+1, "D3: an append inside the compacted prefix changes nothing")
			vsym.Reach("compacted")
		} else {
			wantLast := lastNew
			got, err := st.LastIndex()
			vsym.Assert(err == nil && got == wantLast, "D3: after Append the last index is the last new index")
			for k := 0; k < n+m+1; k++ {
				i := base + 1 + uint64(k)
				if i > wantLast {
					break
				}
				t, terr := st.Term(i)
				vsym.Assert(terr == nil, "D3: every index up to the last is available")
				// expected term
				var want uint64
				isNew := i >= start
				for _, e := range es {
					want = vsym.IteU64(e.Index == i, e.Term, want)
				}
				var old uint64
				for _, e := range model {
					old = vsym.IteU64(e.i == i, e.t, old)
				}
				vsym.Assert(t == vsym.IteU64(isNew, want, old), "D3: entries below the first new index are kept, the others are the new ones")
			}
			vsym.Assert(st.ents[0].Index == base && st.ents[0].Term == baseTerm, "D3: the dummy entry is untouched")
			for k := 1; k < len(st.ents); k++ {
				vsym.Assert(st.ents[k].Index == base+uint64(k), "D3: storage stays contiguous")
			}
			vsym.Reach("appended")
		}
	case 1: // Compact
		ci := vsym.U64("compact")
		vsym.Assume(ci <= last)
		err := st.Compact(ci)
		if ci <= base {
			vsym.Assert(err == ErrCompacted, "D3: compacting at or below the dummy is refused")
		} else {
			vsym.Assert(err == nil, "D3: Compact succeeds")
			f, _ := st.FirstIndex()
			l, _ := st.LastIndex()
			vsym.Assert(f == ci+1 && l == last, "D3: Compact keeps exactly the entries after the compact index")
			for _, e := range model {
				t, terr := st.Term(e.i)
				vsym.Assert(vsym.Implies(e.i >= ci, vsym.And(terr == nil, t == e.t)), "D3: Compact keeps the terms of the kept entries (and of the new dummy)")
				vsym.Assert(vsym.Implies(e.i < ci, terr == ErrCompacted), "D3: compacted entries are reported as compacted")
			}
			vsym.Reach("compacted2")
		}
	default: // CreateSnapshot then ApplySnapshot of a newer one
		si := vsym.U64("snapi")
		vsym.Assume(si <= last)
		snap, err := st.CreateSnapshot(si, nil, nil)
		if si <= base {
			vsym.Assert(err == ErrSnapOutOfDate, "D3: an older snapshot is refused")
		} else {
			vsym.Assert(err == nil && snap.Metadata.Index == si, "D3: CreateSnapshot records the index")
			var want uint64
			for _, e := range model {
				want = vsym.IteU64(e.i == si, e.t, want)
			}
			vsym.Assert(snap.Metadata.Term == want, "D3: CreateSnapshot records the term of that entry")
			l, _ := st.LastIndex()
			vsym.Assert(l == last, "D3: CreateSnapshot does not drop entries")
		}
		ni := vsym.U64("applyi")
		vsym.Assume(ni < vMaxIdx)
		cur := st.snapshot.Metadata.Index
		err = st.ApplySnapshot(pb.Snapshot{Metadata: pb.SnapshotMetadata{Index: ni, Term: 9}})
		if ni <= cur {
			vsym.Assert(err == ErrSnapOutOfDate, "D3: applying an older snapshot is refused")
		} else {
			f, _ := st.FirstIndex()
			l, _ := st.LastIndex()
			vsym.Assert(err == nil && f == ni+1 && l == ni, "D3: ApplySnapshot replaces the log by the snapshot's dummy")
		}
	}
	vsym.Reach("end")
}
