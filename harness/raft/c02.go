//go:build verif

package raft

import (
	pb "github.com/youzan/ZanRedisDB/raft/raftpb"
	"vsym"
)

// C02 - replicas never apply different entries at the same log index (component level, DESIGN.md section 3).
// The per-replica facts the standard State Machine Safety argument rests on, decided on the real code:
// B1 follower append, B2 leader commit rule, B3 up-to-date vote rule, B4 snapshot restore, B5 apply cursor,
// B6 leader append-only + shape of emitted MsgApp/heartbeat, B7 representation invariant kept by every step.

type c02LogSnap struct {
	first, last uint64
	idx         []uint64
	term        []uint64
	ok          []bool
}

// c02Snap records term(i) for the dummy index and the next n indexes.
func c02Snap(l *raftLog, n int) c02LogSnap {
	s := c02LogSnap{first: l.firstIndex(), last: l.lastIndex()}
	for k := 0; k <= n; k++ {
		i := s.first - 1 + uint64(k)
		t, err := l.term(i)
		s.idx = append(s.idx, i)
		s.term = append(s.term, t)
		s.ok = append(s.ok, err == nil)
	}
	return s
}

func c02LogShape(s *vShape) {
	switch vsym.Choose("log", 4) {
	case 1:
		s.NStored = 1
	case 2:
		s.NStored, s.NUnstable = 1, 1
	case 3:
		s.NStored, s.NUnstable = 2, 1
	}
}

// B1: follower append.
func Verif_C02_B1_HandleAppend() {
	s := vShape{N: 3, Role: StateFollower, Prod: true, SimplePr: true}
	c02LogShape(&s)
	v := vMkRaft(s)
	r := v.r
	rl := r.raftLog
	nents := vsym.Choose("nents", 3)
	m := vSymMessage(v, pb.MsgApp, nents)
	vsym.Assume(m.Term == r.Term) // Step has already adopted the leader's term
	vAssumeWellFormed(v, &m)
	pre := c02Snap(rl, s.NStored+s.NUnstable+nents+1)
	preCommitted := rl.committed
	preLast := rl.lastIndex()
	r.handleAppendEntries(m)
	vsym.Assert(len(r.msgs) == 1 && r.msgs[0].Type == pb.MsgAppResp && r.msgs[0].To == m.From, "B1: exactly one MsgAppResp to the sender")
	resp := r.msgs[0]
	lastnew := m.Index + uint64(nents)
	if m.Index < preCommitted {
		vsym.Assert(!resp.Reject && resp.Index == preCommitted, "B1: an append below the commit index is answered with the commit index")
		vsym.Assert(rl.lastIndex() == preLast && rl.committed == preCommitted, "B1: ... and changes nothing")
		vsym.Reach("stale")
	} else if resp.Reject {
		vsym.Assert(resp.Index == m.Index && resp.RejectHint == preLast, "B1: a rejection names the probed index and hints the last index")
		vsym.Assert(rl.lastIndex() == preLast && rl.committed == preCommitted, "B1: a rejected append changes nothing")
		pt, perr := rl.term(m.Index)
		vsym.Assert(perr != nil || pt != m.LogTerm, "B1: rejected only when the previous position does not match")
		vsym.Reach("rejected")
	} else {
		vsym.Assert(resp.Index == lastnew, "B1: an accepted append is acknowledged up to its last entry")
		for i := range m.Entries {
			t, err := rl.term(m.Entries[i].Index)
			vsym.Assert(err == nil && t == m.Entries[i].Term, "B1: every sent entry is in the log afterwards")
		}
		wantCommit := preCommitted
		mc := m.Commit
		if lastnew < mc {
			mc = lastnew
		}
		wantCommit = vsym.IteU64(mc > preCommitted, mc, preCommitted)
		vsym.Assert(rl.committed == wantCommit, "B1: commit index = max(old, min(leader commit, last new index))")
		vsym.Assert(rl.lastIndex() >= lastnew, "B1: the log reaches at least the last new index")
		vsym.Reach("accepted")
	}
	// whatever happened: nothing at or below the old commit index, and nothing at or below the previous index of an accepted append, changed
	for k := range pre.idx {
		i := pre.idx[k]
		t, err := rl.term(i)
		keep := i <= preCommitted
		if !resp.Reject && m.Index >= preCommitted {
			keep = vsym.Or(keep, i <= m.Index)
		}
		vsym.Assert(vsym.Implies(vsym.And(keep, pre.ok[k]), vsym.And(err == nil, t == pre.term[k])), "B1: committed entries and entries up to the matched previous index are unchanged")
	}
	vLogRI(v, "B1")
	vsym.Reach("end")
}

// B2: leader commit rule.
func Verif_C02_B2_MaybeCommit() {
	maxN := 3
	if vsym.Thorough() {
		maxN = 5
	}
	n := 1 + vsym.Choose("voters", maxN)
	s := vShape{N: n, Role: StateLeader, Prod: true}
	s.Learner = vsym.Choose("learner", 2) == 1
	c02LogShape(&s)
	v := vMkRaft(s)
	r := v.r
	rl := r.raftLog
	pre := rl.committed
	changed := r.maybeCommit()
	c := rl.committed
	vsym.Assert(c >= pre, "B2: the commit index never decreases")
	vsym.Assert(changed == (c != pre), "B2: maybeCommit reports whether the commit index moved")
	cnt := 0
	for _, id := range v.voters {
		cnt += vsym.IteInt(r.prs[id].Match >= c, 1, 0)
	}
	if changed {
		vsym.Assert(cnt >= r.quorum(), "B2: a newly committed index is matched by a quorum of voters (learners do not count)")
		t, err := rl.term(c)
		vsym.Assert(err == nil && t == r.Term, "B2: a leader only commits entries of its own term by counting")
		vsym.Reach("committed")
	}
	// completeness: any index of the leader's term matched by a quorum is committed afterwards
	last := rl.lastIndex()
	for k := 0; k <= s.NStored+s.NUnstable; k++ {
		i := last - uint64(k)
		if uint64(k) > last {
			break
		}
		q := 0
		for _, id := range v.voters {
			q += vsym.IteInt(r.prs[id].Match >= i, 1, 0)
		}
		t, err := rl.term(i)
		isMci := q >= r.quorum()
		// the quorum-th largest Match is the largest such i; if it carries the current term it is committed
		vsym.Assert(vsym.Implies(vsym.And(isMci, vsym.And(err == nil, vsym.And(t == r.Term, i > v.snapIdx))), c >= i) || !c02IsLargestQuorumIndex(v, i), "B2: the largest quorum-matched index of the current term is committed")
	}
	vsym.Reach("end")
}

// c02IsLargestQuorumIndex: no voter quorum matches an index larger than i.
func c02IsLargestQuorumIndex(v *vRaft, i uint64) bool {
	r := v.r
	// the quorum-th largest match is <= i  <=>  fewer than quorum voters have Match > i
	q := 0
	for _, id := range v.voters {
		q += vsym.IteInt(r.prs[id].Match > i, 1, 0)
	}
	return q < r.quorum()
}

// B3a: the up-to-date rule.
func Verif_C02_B3_IsUpToDate() {
	s := vShape{N: 1, Role: StateFollower, Prod: true, SimplePr: true}
	c02LogShape(&s)
	v := vMkRaft(s)
	rl := v.r.raftLog
	li, lt := vsym.U64("cand.lastindex"), vsym.U64("cand.lastterm")
	myT, myI := rl.lastTerm(), rl.lastIndex()
	lex := vsym.Or(lt > myT, vsym.And(lt == myT, li >= myI))
	vsym.Assert(rl.isUpToDate(li, lt) == lex, "B3: isUpToDate is the lexicographic order on (last term, last index)")
	vsym.Reach("end")
}

// B3b: a real or pre vote is granted only to a candidate whose log is up to date.
func Verif_C02_B3_VoteNeedsUpToDateLog() {
	s := c01Shape(3)
	typ := []pb.MessageType{pb.MsgVote, pb.MsgPreVote}[vsym.Choose("votetype", 2)]
	c01LogShape(&s, true)
	v := vMkRaft(s)
	r := v.r
	rl := r.raftLog
	myT, myI := rl.lastTerm(), rl.lastIndex()
	m := vSymMessage(v, typ, 0)
	vAssumeWellFormed(v, &m)
	n := &node{}
	n.handleReceivedMessage(r, m)
	for i := range r.msgs {
		x := &r.msgs[i]
		if (x.Type == pb.MsgVoteResp || x.Type == pb.MsgPreVoteResp) && x.To == m.From {
			ok := vsym.Or(m.LogTerm > myT, vsym.And(m.LogTerm == myT, m.Index >= myI))
			vsym.Assert(vsym.Implies(!x.Reject, ok), "B3: a vote is granted only to a candidate whose log is at least as up to date")
			vsym.Reach("answered")
		}
	}
	vsym.Assert(rl.lastIndex() == myI && rl.lastTerm() == myT, "B3: voting does not change the log")
	vsym.Reach("end")
}

func c02Snapshot(v *vRaft, sameConf bool) pb.Snapshot {
	var snap pb.Snapshot
	snap.Metadata.Index = vsym.U64("snap.m.index")
	snap.Metadata.Term = vsym.U64("snap.m.term")
	vsym.Assume(snap.Metadata.Index < vMaxIdx && snap.Metadata.Index > 0)
	vsym.Assume(snap.Metadata.Term > 0 && snap.Metadata.Term < vMaxIdx)
	ids := v.voters
	if !sameConf {
		// another membership: voters 1..N-1 plus a new voter 9; never without voters
		ids = append([]uint64{}, v.voters[:len(v.voters)-1]...)
		ids = append(ids, 9)
	}
	for _, id := range ids {
		snap.Metadata.ConfState.Nodes = append(snap.Metadata.ConfState.Nodes, id)
		g := vGroup(id)
		snap.Metadata.ConfState.Groups = append(snap.Metadata.ConfState.Groups, &g)
	}
	if v.shape.Learner {
		id := uint64(v.shape.N + 1)
		snap.Metadata.ConfState.Learners = append(snap.Metadata.ConfState.Learners, id)
		g := vGroup(id)
		snap.Metadata.ConfState.LearnerGroups = append(snap.Metadata.ConfState.LearnerGroups, &g)
	}
	return snap
}

// B4: snapshot restore.
func Verif_C02_B4_Restore() {
	s := vShape{N: 1 + vsym.Choose("voters", 3), Role: StateFollower, Prod: true, SimplePr: true}
	s.Learner = vsym.Choose("learner", 2) == 1
	if s.Learner && vsym.Choose("selflearner", 2) == 1 {
		s.SelfLearn = true
	}
	c02LogShape(&s)
	v := vMkRaft(s)
	r := v.r
	rl := r.raftLog
	sameConf := vsym.Choose("sameconf", 2) == 0 || s.N < 2
	snap := c02Snapshot(v, sameConf)
	m := pb.Message{Type: pb.MsgSnap, From: 2, To: r.id, Term: r.Term, Snapshot: snap, FromGroup: vGroup(2), ToGroup: r.group}
	// GLOBAL (Leader Completeness): a snapshot from the current leader agrees with what is committed here, and a
	// snapshot covers only committed entries of terms <= the leader's term
	vsym.Assume(snap.Metadata.Term <= r.Term)
	if t, err := rl.term(snap.Metadata.Index); err == nil {
		vsym.Assume(vsym.Implies(vsym.And(snap.Metadata.Index <= rl.committed, snap.Metadata.Index >= v.snapIdx), t == snap.Metadata.Term))
	}
	pre := c02Snap(rl, s.NStored+s.NUnstable+1)
	preCommitted, preLast := rl.committed, rl.lastIndex()
	matched := rl.matchTerm(snap.Metadata.Index, snap.Metadata.Term)
	wasLearner := r.isLearner
	r.handleSnapshot(m)
	vsym.Assert(len(r.msgs) == 1 && r.msgs[0].Type == pb.MsgAppResp, "B4: one MsgAppResp")
	vsym.Assert(rl.committed >= preCommitted, "B4: the commit index never decreases")
	if snap.Metadata.Index <= preCommitted {
		vsym.Assert(rl.committed == preCommitted && rl.lastIndex() == preLast && rl.unstable.snapshot == nil, "B4: a snapshot at or below the commit index is ignored")
		vsym.Assert(r.msgs[0].Index == preCommitted, "B4: ... and answered with the commit index")
		vsym.Reach("ignored")
	} else if matched {
		vsym.Assert(rl.committed == snap.Metadata.Index && rl.lastIndex() == preLast && rl.unstable.snapshot == nil, "B4: a snapshot the log already contains only fast-forwards the commit index")
		for k := range pre.idx {
			t, err := rl.term(pre.idx[k])
			vsym.Assert(vsym.Implies(pre.ok[k], vsym.And(err == nil, t == pre.term[k])), "B4: fast-forward keeps the log")
		}
		vsym.Reach("fastforward")
	} else {
		vsym.Assert(rl.committed == snap.Metadata.Index, "B4: after a restore the commit index is the snapshot index")
		vsym.Assert(rl.lastIndex() == snap.Metadata.Index, "B4: after a restore the log ends at the snapshot index")
		t, err := rl.term(snap.Metadata.Index)
		vsym.Assert(err == nil && t == snap.Metadata.Term, "B4: the term at the snapshot index is the snapshot's")
		vsym.Assert(rl.unstable.snapshot != nil && rl.unstable.snapshot.Metadata.Index == snap.Metadata.Index, "B4: the snapshot waits in unstable to be persisted")
		vsym.Assert(len(rl.unstable.entries) == 0 && rl.unstable.offset == snap.Metadata.Index+1, "B4: no stale unstable entries survive a restore")
		vsym.Assert(len(r.prs) == len(snap.Metadata.ConfState.Nodes) && len(r.learnerPrs) == len(snap.Metadata.ConfState.Learners), "B4: membership is the snapshot's")
		for _, id := range snap.Metadata.ConfState.Nodes {
			vsym.Assert(r.prs[id] != nil, "B4: every voter of the snapshot is a voter")
		}
		vsym.Assert(vsym.Implies(!wasLearner, !r.isLearner), "B4: a voter is never turned into a learner by a restore")
		vsym.Assert(r.msgs[0].Index == snap.Metadata.Index, "B4: a restore is acknowledged at the snapshot index")
		// the Ready that follows hands the snapshot out first, and persisting it then restarting gives the same state
		rd := newReady(r, r.softState(), pb.HardState{}, true)
		vsym.Assert(rd.Snapshot.Metadata.Index == snap.Metadata.Index, "B4: the next Ready carries the snapshot")
		vsym.Assert(len(rd.CommittedEntries) == 0, "B4: no entry below the snapshot is handed out for apply")
		vPersist(v, rd)
		r2 := vRestart(v, false)
		vsym.Assert(r2.Term == r.Term && r2.Vote == r.Vote && r2.raftLog.committed == rl.committed && r2.raftLog.lastIndex() == rl.lastIndex(), "B4/D1: a restored snapshot survives persist + restart")
		vsym.Assert(len(r2.prs) == len(r.prs) && len(r2.learnerPrs) == len(r.learnerPrs) && r2.isLearner == r.isLearner, "B4/D1: membership survives persist + restart")
		vsym.Reach("restored")
	}
	vsym.Reach("end")
}

// B5: the apply cursor.
func Verif_C02_B5_ApplyCursor() {
	s := vShape{N: 1 + vsym.Choose("voters", 2), Prod: true, SimplePr: true}
	s.Role = []StateType{StateFollower, StateLeader}[vsym.Choose("role", 2)]
	switch vsym.Choose("log", 4) {
	case 0:
		s.NStored = 1
	case 1:
		s.NStored, s.NUnstable = 2, 0
	case 2:
		s.NStored, s.NUnstable = 2, 1
	case 3:
		s.NStored, s.NUnstable = 3, 1
	}
	v := vMkRaft(s)
	r := v.r
	rl := r.raftLog
	// per-Ready size limit: none, or so small that every Ready carries exactly one entry
	if vsym.Choose("limit", 2) == 1 {
		rl.maxNextEntsSize = 1
	}
	nd := &node{r: r, prevS: &prevState{prevSoftSt: r.softState(), prevHardSt: r.hardState()}}
	next := rl.applied + 1
	if f := rl.firstIndex(); f > next {
		next = f
	}
	rounds := s.NStored + s.NUnstable + 1
	for round := 0; round < rounds; round++ {
		more := true
		if round == 1 && vsym.Choose("pause", 2) == 1 {
			more = false // the application is busy: no entries are handed out in this round
		}
		rd := newReady(r, nd.prevS.prevSoftSt, nd.prevS.prevHardSt, more)
		if !more {
			vsym.Assert(len(rd.CommittedEntries) == 0, "B5: no entries are handed out while the application is busy")
		}
		for i := range rd.CommittedEntries {
			e := &rd.CommittedEntries[i]
			vsym.Assert(e.Index == next+uint64(i), "B5: handed-out entries are contiguous and start right after the applied cursor")
			vsym.Assert(e.Index <= rl.committed, "B5: only committed entries are handed out")
			t, err := rl.term(e.Index)
			vsym.Assert(err == nil && t == e.Term, "B5: handed-out entries are the log's entries")
		}
		if n := len(rd.CommittedEntries); n > 0 {
			lastH := rd.CommittedEntries[n-1].Index
			vsym.Assert(rd.MoreCommittedEntries == (rl.committed > lastH), "B5: MoreCommittedEntries iff committed entries remain")
			next = lastH + 1
		} else if more {
			vsym.Assert(rl.committed < next, "B5: nothing is handed out only when nothing is left to apply")
		}
		vPersist(v, rd)
		nd.Advance(rd)
		vsym.Assert(rl.applied+1 == next || (rl.applied+1 < next && next == rl.firstIndex()), "B5: after Advance the applied cursor is the last handed-out index")
	}
	vsym.Assert(next == rl.committed+1 || rl.committed < next, "B5: every committed entry was handed out exactly once")
	vsym.Reach("end")
}

// B6 + B7: every step keeps the representation invariant; a leader never rewrites its log and the
// replication messages it emits describe its log.
func Verif_C02_B67_Step() {
	s := c03Shape()
	k := vsym.Choose("step", 19)
	s.SimplePr = false
	s.RichOne = true
	// (symbolic snapshot index and logs of 2+1 entries in the thorough tier: 40+ minutes, outside the claim;
	// thorough adds the two-voter shapes and the 1-entry log)
	c01LogShape(&s, true)
	s.ConcIdx = true
	v := vMkRaft(s)
	r := v.r
	rl := r.raftLog
	pre := c02Snap(rl, s.NStored+s.NUnstable+1)
	wasLeader := r.state == StateLeader
	preTerm := r.Term
	preCommitted := rl.committed
	if k == int(pb.MsgSnap) {
		r.tick()
	} else {
		c03Step(v, pb.MessageType(k))
	}
	// B7
	vLogRI(v, "B7")
	vsym.Assert(rl.committed >= preCommitted, "B7: the commit index never decreases")
	if r.state == StateLeader {
		vsym.Assert(r.lead == r.id && r.Vote == r.id, "B7: leader role facts")
		vsym.Assert(r.prs[r.id] != nil && r.prs[r.id].Match == rl.lastIndex(), "B7: a leader's own Match is its last index")
	}
	for id, pr := range r.prs {
		_ = id
		vsym.Assert(pr.Match < pr.Next, "B7: Match < Next for every peer")
		if r.state == StateLeader {
			vsym.Assert(pr.Match <= rl.lastIndex(), "B7: a leader never records a Match beyond its log")
		}
	}
	// B6
	if wasLeader && r.state == StateLeader && r.Term == preTerm {
		for j := range pre.idx {
			t, err := rl.term(pre.idx[j])
			vsym.Assert(vsym.Implies(pre.ok[j], vsym.And(err == nil, t == pre.term[j])), "B6: a leader never changes an entry of its own log")
		}
		vsym.Assert(rl.lastIndex() >= pre.last, "B6: a leader's log never shrinks")
	}
	for i := range r.msgs {
		m := &r.msgs[i]
		switch m.Type {
		case pb.MsgApp:
			vsym.Assert(r.state == StateLeader && m.Term == r.Term, "B6: only the leader sends appends, stamped with its term")
			t, err := rl.term(m.Index)
			vsym.Assert(err == nil && t == m.LogTerm, "B6: an append names a real previous position of the leader's log")
			vsym.Assert(m.Commit == rl.committed, "B6: an append carries the leader's commit index")
			for j := range m.Entries {
				e := &m.Entries[j]
				vsym.Assert(e.Index == m.Index+1+uint64(j), "B6: appended entries are contiguous after the previous index")
				et, eerr := rl.term(e.Index)
				vsym.Assert(eerr == nil && et == e.Term, "B6: appended entries are the leader's entries")
			}
			vsym.Reach("msgapp")
		case pb.MsgHeartbeat:
			vsym.Assert(r.state == StateLeader, "B6: only the leader sends heartbeats")
			pr := r.getProgress(m.To)
			vsym.Assert(pr != nil && m.Commit <= pr.Match && m.Commit <= rl.committed, "B6: a heartbeat never forwards the commit index beyond what the follower matched")
			vsym.Reach("heartbeat")
		}
	}
	vsym.Reach("end")
}

// B5/B6 kernel: raftLog.slice / entries with a size limit - whatever the limit, the result is a non-empty
// contiguous prefix of the log's entries from lo (stored part, unstable part, or both).
func Verif_C02_B6_SliceContiguousPrefix() {
	s := vShape{N: 1, Role: StateLeader, Prod: true, SimplePr: true, ConcIdx: true}
	switch vsym.Choose("log", 3) {
	case 0:
		s.NStored, s.NUnstable = 2, 1
	case 1:
		s.NStored, s.NUnstable = 2, 2
	case 2:
		s.NStored, s.NUnstable = 3, 0
	}
	v := vMkRaft(s)
	rl := v.r.raftLog
	// entry payloads of different sizes: optionally the second stored entry is much larger than its neighbours
	if vsym.Choose("bigsecond", 2) == 1 {
		v.st.ents[2].Data = make([]byte, 40)
	}
	first, last := rl.firstIndex(), rl.lastIndex()
	lo := first + uint64(vsym.Choose("lo", 3))
	hi := lo + 1 + uint64(vsym.Choose("n", 3))
	if hi > last+1 {
		vsym.Reach("end")
		return
	}
	maxSize := uint64(noLimit)
	if vsym.Choose("limited", 2) == 1 {
		maxSize = vsym.U64("maxsize")
		vsym.Assume(maxSize < 1<<20)
	}
	ents, err := rl.slice(lo, hi, maxSize)
	vsym.Assert(err == nil, "slice succeeds inside [firstIndex, lastIndex+1]")
	vsym.Assert(len(ents) >= 1 && uint64(len(ents)) <= hi-lo, "slice returns at least one and at most hi-lo entries")
	for i := range ents {
		vsym.Assert(ents[i].Index == lo+uint64(i), "slice returns a contiguous run starting at lo (no hole between the stored and the unstable part)")
		t, terr := rl.term(lo + uint64(i))
		vsym.Assert(terr == nil && t == ents[i].Term, "slice returns the log's entries")
	}
	if maxSize == noLimit {
		vsym.Assert(uint64(len(ents)) == hi-lo, "without a size limit slice returns all of [lo, hi)")
	}
	vsym.Reach("end")
}
