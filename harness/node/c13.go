//go:build verif

package node

import (
	"bytes"

	"github.com/youzan/ZanRedisDB/common"
	"vsym"
)

// C13 (command layer, one partition): SCAN / ADVSCAN over the keys of one table and type by feeding the
// returned cursor back until the empty cursor: every key of that table and type exactly once, in key
// order, nothing from other tables (names that extend or precede the table's name) or other types.

func Verif_C13_TableScan() {
	vsym.FreezeClock(int64(1700000200) * 1e9)
	e := c11Open()
	defer e.done()
	e.nd.ns = "ns-0"
	db := e.sm.store
	ts := int64(1700000000) * 1e9
	dnames := []string{"KV", "HASH", "SET", "ZSET", "LIST"}
	di := vsym.Choose("type", len(dnames))
	put := func(i int, k []byte) {
		var err error
		switch i {
		case 0:
			err = db.KVSet(ts, k, []byte("v"))
		case 1:
			_, err = db.HSet(ts, false, k, []byte("f"), []byte("v"))
		case 2:
			_, err = db.SAdd(ts, k, []byte("m"))
		case 3:
			_, err = db.ZAdd(ts, k, common.ScorePair{Score: 1, Member: []byte("m")})
		default:
			_, err = db.RPush(ts, k, []byte("e"))
		}
		vsym.Assert(err == nil, "populate")
	}
	// keys of table t: 0..3 names of one symbolic byte, increasing
	n := vsym.Choose("nkeys", 4)
	var names [][]byte
	for i := 0; i < n; i++ {
		m := vsym.Bytes("name", 1)
		if i > 0 {
			vsym.Assume(m[0] > names[i-1][0])
		}
		names = append(names, m)
		put(di, append([]byte("t:"), m...))
	}
	// other tables around t (one of them at a time also holds keys), and the same names under another type
	others := []string{"s", "t0", "tz", "u"}
	ot := others[vsym.Choose("othertable", len(others))]
	put(di, []byte(ot+":a"))
	put(di, []byte(ot+":z"))
	put((di+1)%len(dnames), []byte("t:q"))
	useScan := di == 0 && vsym.Choose("plainscan", 2) == 1
	count := 1 + vsym.Choose("count", 2)
	cursor := []byte("t:")
	var got [][]byte
	done := false
	for round := 0; round < n+2 && !done; round++ {
		var res interface{}
		var err error
		if useScan {
			res, err = e.nd.scanCommand(common.BuildCommand([][]byte{[]byte("scan"), cursor, []byte("count"), []byte{byte('0' + count)}}))
		} else {
			res, err = e.nd.advanceScanCommand(common.BuildCommand([][]byte{[]byte("advscan"), append([]byte("ns:"), cursor...), []byte(dnames[di]), []byte("count"), []byte{byte('0' + count)}}))
		}
		vsym.Assert(err == nil, "scan command succeeds")
		sr := res.(*common.ScanResult)
		vsym.Assert(len(sr.Keys) <= count, "a page holds at most COUNT keys")
		for _, k := range sr.Keys {
			vsym.Assert(len(k) == 3 && k[0] == 't' && k[1] == ':', "only keys of the scanned table are returned")
			got = append(got, k)
		}
		if len(sr.NextCursor) == 0 {
			done = true
		} else if useScan {
			cursor = sr.NextCursor
		} else {
			cursor = append([]byte("t:"), sr.NextCursor...)
		}
	}
	vsym.Assert(done, "the iteration reaches the empty cursor")
	vsym.Assert(len(got) == n, "every key of the table exactly once (count)")
	for i := range got {
		if i < n {
			vsym.Assert(len(got[i]) == 3 && bytes.Equal(got[i][:2], []byte("t:")) && got[i][2] == names[i][0], "every key of the table exactly once, in key order")
		}
	}
	vsym.Reach("end")
}
