//go:build verif

package node

import (
	"github.com/youzan/ZanRedisDB/pkg/wait"
	"github.com/youzan/ZanRedisDB/raft/raftpb"
	"vsym"
)

// C19 - cross-cluster log replay applies each source entry exactly once (component level).
// The real apply path of a raft entry (KVNode.applyEntry: unmarshal, duplicate filter, state machine,
// position update) runs over a recording state machine.

type c19SM struct {
	StateMachine // the other methods are not reached
	applied      [][2]uint64
	posAtApply   []SyncedState // recorded position as seen while the state machine runs
	nd           *KVNode
	ignore       []bool
}

func (s *c19SM) ApplyRaftRequest(isReplaying bool, b IBatchOperator, req BatchInternalRaftRequest, term uint64, index uint64, stop chan struct{}) (bool, error) {
	st, _ := s.nd.remoteSyncedStates.GetState(req.OrigCluster)
	s.posAtApply = append(s.posAtApply, st)
	s.applied = append(s.applied, [2]uint64{req.OrigTerm, req.OrigIndex})
	if s.ignore[len(s.applied)-1] {
		return false, errIgnoredRemoteApply
	}
	return false, nil
}

func c19Wide(name string) uint64 {
	v := vsym.U64(name)
	switch vsym.Choose(name+".class", 3) {
	case 0:
		vsym.Assume(v >= 1 && v < 1<<7)
	case 1:
		vsym.Assume(v >= 1<<7 && v < 1<<14)
	default:
		vsym.Assume(v >= 1<<63)
	}
	return v
}

func c19Entry(term, index uint64) raftpb.Entry {
	rl := BatchInternalRaftRequest{ReqNum: 1, Type: FromClusterSyncer, OrigTerm: term, OrigIndex: index, OrigCluster: "src",
		Reqs: []InternalRaftRequest{{Data: []byte{1}}}}
	d, err := rl.Marshal()
	vsym.Assert(err == nil, "marshal")
	return raftpb.Entry{Term: 1, Index: 1, Data: d}
}

func Verif_C19_ApplyEntry_ExactlyOnce() {
	nd := &KVNode{rn: &raftNode{}, remoteSyncedStates: newRemoteSyncedStateMgr(), w: wait.New()}
	n := 2
	if vsym.Thorough() {
		n = 2 + vsym.Choose("n", 2)
	}
	sm := &c19SM{nd: nd}
	for i := 0; i < n+1; i++ {
		sm.ignore = append(sm.ignore, vsym.Bool("ignored"))
	}
	nd.sm = sm
	// any recorded position to start from (or none)
	var p SyncedState
	hasP := vsym.Choose("haspos", 2) == 1
	if hasP {
		p = SyncedState{SyncedTerm: vsym.U64("p.term"), SyncedIndex: vsym.U64("p.index")}
		nd.remoteSyncedStates.UpdateState("src", p)
	}
	type del struct{ t, i uint64 }
	var ds []del
	for k := 0; k < n; k++ {
		ds = append(ds, del{c19Wide("d.term"), c19Wide("d.index")})
	}
	for k := 0; k < n; k++ {
		before, had := nd.remoteSyncedStates.GetState("src")
		napplied := len(sm.applied)
		nd.applyEntry(c19Entry(ds[k].t, ds[k].i), false, nil)
		after, has := nd.remoteSyncedStates.GetState("src")
		didApply := len(sm.applied) == napplied+1
		vsym.Assert(len(sm.applied) <= napplied+1, "a delivery reaches the state machine at most once")
		if had {
			// (b) a delivery equal to or older than the recorded position is skipped
			older := vsym.Or(ds[k].t < before.SyncedTerm, ds[k].i <= before.SyncedIndex)
			vsym.Assert(vsym.Implies(older, !didApply), "a delivery at or behind the recorded position does not reach the state machine")
			// the position never moves backwards
			vsym.Assert(has && after.SyncedIndex >= before.SyncedIndex && after.SyncedTerm >= before.SyncedTerm, "the recorded position never moves backwards")
		}
		if didApply {
			// (c) the position is updated only after the state machine ran, and not when the apply was ignored
			seen := sm.posAtApply[napplied]
			vsym.Assert(seen.SyncedIndex == before.SyncedIndex && seen.SyncedTerm == before.SyncedTerm, "while the state machine runs the recorded position is still the old one")
			if sm.ignore[napplied] {
				vsym.Assert(has == had && after.SyncedIndex == before.SyncedIndex && after.SyncedTerm == before.SyncedTerm, "an ignored apply does not advance the position")
			} else {
				// (a) an applied delivery moves the position to itself
				vsym.Assert(has && after.SyncedTerm == ds[k].t && after.SyncedIndex == ds[k].i, "an applied delivery becomes the recorded position")
				if had {
					vsym.Assert(after.SyncedIndex > before.SyncedIndex, "the position strictly advances in index")
				}
			}
		} else {
			vsym.Assert(has == had && after.SyncedIndex == before.SyncedIndex && after.SyncedTerm == before.SyncedTerm, "a skipped delivery leaves the position alone")
		}
	}
	// exactly-once: no (term,index) reaches the state machine twice unless its first apply was ignored
	for a := 0; a < len(sm.applied); a++ {
		for b := a + 1; b < len(sm.applied); b++ {
			same := vsym.And(sm.applied[a][0] == sm.applied[b][0], sm.applied[a][1] == sm.applied[b][1])
			vsym.Assert(vsym.Implies(same, sm.ignore[a]), "a source entry that was applied is never applied again")
		}
	}
	// (d) snapshot carriage of the position map
	clone := nd.remoteSyncedStates.Clone()
	m2 := newRemoteSyncedStateMgr()
	m2.RestoreStates(clone)
	s1, ok1 := nd.remoteSyncedStates.GetState("src")
	s2, ok2 := m2.GetState("src")
	vsym.Assert(ok1 == ok2 && s1.SyncedTerm == s2.SyncedTerm && s1.SyncedIndex == s2.SyncedIndex, "Clone/RestoreStates carry the position unchanged")
	// (e) restoring a snapshot on a replica that already holds positions (a follower that receives a
	// snapshot, a node rolled back to a backup): the data becomes the snapshot's, so the positions must
	// become exactly the snapshot's too - whatever was recorded before, newer or older, for this or
	// another source cluster. A position kept from before would make replay skip (or repeat) entries.
	m3 := newRemoteSyncedStateMgr()
	// (no prior position at all is case (d) above; no fork here, so the path count stays that of (a)-(d))
	m3.UpdateState("src", SyncedState{SyncedTerm: vsym.U64("q.term"), SyncedIndex: vsym.U64("q.index")})
	m3.UpdateState("other", SyncedState{SyncedTerm: vsym.U64("o.term"), SyncedIndex: vsym.U64("o.index")})
	m3.RestoreStates(clone)
	s3, ok3 := m3.GetState("src")
	vsym.Assert(ok1 == ok3 && s1.SyncedTerm == s3.SyncedTerm && s1.SyncedIndex == s3.SyncedIndex, "a restored snapshot replaces the recorded position, whatever was recorded before")
	_, okOther := m3.GetState("other")
	vsym.Assert(!okOther, "a source cluster absent from the snapshot has no position after the restore")
	vsym.Reach("end")
}
