//go:build verif

package node

import (
	"github.com/youzan/ZanRedisDB/transport/rafthttp"
	"github.com/youzan/ZanRedisDB/engine"
	"github.com/absolute8511/redcon"
	"github.com/youzan/ZanRedisDB/common"
	zanredisdb "github.com/youzan/go-zanredisdb"
	"vsym"
)

// C15 - every key is served by exactly one partition, the one clients compute.
// murmur3.Sum32 is an uninterpreted function: what is decided is that client SDK and server apply it to
// the same bytes and reduce it with the same modulus into range.

func c15Namespace() string {
	n := 1 + vsym.Choose("nslen", 2)
	ns := vsym.Bytes("ns", n)
	for _, b := range ns {
		// the namespace alphabet enforced by common.IsValidNamespaceName (regexp ^[a-zA-Z0-9_]+$)
		ok := vsym.Or(vsym.And(b >= 'a', b <= 'z'), vsym.Or(vsym.And(b >= 'A', b <= 'Z'), vsym.Or(vsym.And(b >= '0', b <= '9'), b == '_')))
		vsym.Assume(ok)
	}
	return string(ns)
}

// S1: client SDK and server derive the same sharding bytes and the same in-range partition.
func Verif_C15_S1_ClientServerAgree() {
	ns := c15Namespace()
	set := vsym.String("set", vsym.Choose("setlen", 3))
	key := vsym.Bytes("key", vsym.Choose("keylen", 3))
	pk := zanredisdb.NewPKey(ns, set, key)
	// what the client sends as the first argument of a command
	raw := append([]byte(nil), pk.RawKey...)
	// server side: namespace cut (server.GetPKAndHashSum = common.ExtractNamesapce + node.HashedKey)
	ns2, spk, err := common.ExtractNamesapce(raw)
	vsym.Assert(err == nil, "server accepts the client's raw key")
	vsym.Assert(ns2 == ns, "server sees the client's namespace")
	shard := pk.ShardingKey()
	vsym.Assert(len(spk) == len(shard) && vsym.BytesEq(spk, shard), "server hashes exactly the client's sharding bytes (set:key, ':' inside included)")
	real, err := common.CutNamesapce(raw)
	vsym.Assert(err == nil && len(real) == len(spk) && vsym.BytesEq(real, spk), "CutNamesapce and ExtractNamesapce agree")
	pnum := vsym.Int("pnum")
	vsym.Assume(pnum >= 1 && pnum <= 1024)
	cpid := zanredisdb.GetHashedPartitionID(shard, pnum)
	spid := GetHashedPartitionID(spk, pnum)
	vsym.Assert(cpid == spid, "client and server compute the same partition")
	sum := HashedKey(spk)
	vsym.Assert(sum%pnum == spid, "the routing expression pkSum % PartitionNum is that partition")
	vsym.Assert(spid >= 0 && spid < pnum, "the partition index is in range")
	vsym.Reach("end")
}

// S3: the namespace manager hands out the node registered for the computed partition, or an error - never another one.
func Verif_C15_S3_OwnerOnly() {
	pnum := 1 + vsym.Choose("pnum", 3)
	mgr := &NamespaceMgr{kvNodes: map[string]*NamespaceNode{}, nsMetas: map[string]*NamespaceMeta{}, groups: map[uint64]string{}}
	mgr.nsMetas["ns"] = &NamespaceMeta{PartitionNum: pnum}
	nodes := map[int]*NamespaceNode{}
	for p := 0; p < pnum; p++ {
		if vsym.Choose("registered", 2) == 1 {
			nn := &NamespaceNode{conf: &NamespaceConfig{Name: common.GetNsDesp("ns", p)}}
			if vsym.Choose("ready", 2) == 1 {
				nn.ready = 1
			}
			nodes[p] = nn
			mgr.kvNodes[nn.FullName()] = nn
		}
	}
	key := vsym.Bytes("key", 1+vsym.Choose("keylen", 2))
	want := GetHashedPartitionID(key, pnum)
	got, err := mgr.GetNamespaceNodeWithPrimaryKey("ns", key)
	for p := 0; p < pnum; p++ {
		if want == p {
			nn := nodes[p]
			if nn == nil {
				vsym.Assert(err != nil && got == nil, "an unregistered partition is an error, not another node")
			} else if nn.ready == 0 {
				vsym.Assert(err != nil && got == nil, "a partition that is not ready is an error")
			} else {
				vsym.Assert(err == nil && got == nn, "the node of the computed partition is returned")
			}
			vsym.Reach("checked")
		}
	}
	_, err = mgr.GetNamespaceNodeWithPrimaryKey("other", key)
	vsym.Assert(err != nil, "an unknown namespace is an error")
	cmd := redcon.Command{Args: [][]byte{[]byte("get")}}
	_ = cmd
	vsym.Reach("end")
}

// Models for the heavy collaborators of InitNamespaceNode (opening the data engine, the raft WAL engine):
// the harness below decides only the namespace-meta bookkeeping that routing reads.
func VerifModel_node_NewKVNode(kvopts *KVOptions, config *RaftConfig, transport *rafthttp.Transport, join bool,
	stopCb func(), clusterInfo common.IClusterInfo, newLeaderChan chan string) (*KVNode, error) {
	return &KVNode{ns: config.GroupName, rn: &raftNode{config: config}}, nil
}

func VerifModel_node_NamespaceMgr_getWALEng(nsm *NamespaceMgr, ns string, dataDir string, id uint64, gid uint32, meta *NamespaceMeta) engine.KVEngine {
	return nil
}

// S4: after a namespace is (re)created through InitNamespaceNode, routing uses that namespace's current
// partition count - also when an older incarnation with a different partition count was known before.
func Verif_C15_S4_InitNamespaceMeta() {
	vsym.SymbolicOnly()
	mgr := &NamespaceMgr{kvNodes: map[string]*NamespaceNode{}, nsMetas: map[string]*NamespaceMeta{}, groups: map[uint64]string{},
		machineConf: &MachineConfig{}}
	oldNum := vsym.Choose("old", 4) // 0: never seen
	if oldNum > 0 {
		mgr.nsMetas["ns"] = &NamespaceMeta{PartitionNum: oldNum}
	}
	pnum := 1 + vsym.Choose("pnum", 3)
	nodes := map[int]*NamespaceNode{}
	for p := 0; p < pnum; p++ {
		conf := NewNSConfig()
		conf.BaseName = "ns"
		conf.Name = common.GetNsDesp("ns", p)
		conf.PartitionNum = pnum
		conf.Replicator = 1
		conf.EngType = "pebble"
		conf.RaftGroupConf.GroupID = uint64(p + 1)
		conf.RaftGroupConf.SeedNodes = []ReplicaInfo{{NodeID: 1, ReplicaID: 1}}
		nn, err := mgr.InitNamespaceNode(conf, 1, false)
		vsym.Assert(err == nil && nn != nil, "a valid partition config is accepted")
		nn.ready = 1
		nodes[p] = nn
	}
	key := vsym.Bytes("key", 1+vsym.Choose("keylen", 2))
	want := GetHashedPartitionID(key, pnum)
	got, err := mgr.GetNamespaceNodeWithPrimaryKey("ns", key)
	for p := 0; p < pnum; p++ {
		if want == p {
			vsym.Assert(err == nil && got == nodes[p], "routing after (re)creation uses the namespace's current partition count")
			vsym.Reach("checked")
		}
	}
	m := mgr.nsMetas["ns"]
	vsym.Assert(m != nil && m.PartitionNum == pnum, "the recorded partition count is the created one")
	vsym.Reach("end")
}

// FillDefaultOptions sizes caches from the machine's memory (gopsutil reads /proc): irrelevant to routing.
func VerifModel_engine_FillDefaultOptions(opts *engine.RockOptions) {}

// json.MarshalIndent is used by InitNamespaceNode only to log the configuration.
func VerifModel_json_MarshalIndent(v interface{}, prefix, indent string) ([]byte, error) { return nil, nil }
