//go:build verif

package node

import (
	"time"

	"github.com/youzan/ZanRedisDB/common"
	"github.com/youzan/ZanRedisDB/rockredis"
	"vsym"
)

// C07 - applying the same log always yields the same data and replies.
// Two replicas apply the same two log entries (command bytes + the timestamp carried by each entry) but
// differ in everything the property says must not matter: wall clock (far before vs far after every
// expiry instant), grouping of entries into apply batches (one commit per entry vs one at the end),
// live vs replay flag. Replies per request id and the raw store content must be identical.

type c07Wait struct {
	c11Wait
	byID map[uint64]interface{}
}

func (w *c07Wait) Trigger(id uint64, x interface{}) {
	w.byID[id] = x
}

type c07Replica struct {
	sm   *kvStoreSM
	w    *c07Wait
	vdb  *rockredis.VerifDB
	done func()
}

func c07Open() *c07Replica {
	db, vdb := rockredis.VerifOpenDB()
	w := &c07Wait{byID: map[uint64]interface{}{}}
	sm := &kvStoreSM{fullNS: "ns-0", store: &KVStore{RockDB: db, opts: &KVOptions{EngType: rockredis.EngType}}, router: common.NewSMCmdRouter(), cRouter: NewConflictRouter(),
		w: w}
	sm.registerHandlers()
	return &c07Replica{sm: sm, w: w, vdb: vdb, done: vdb.Close}
}

// T0: log time of the pre-state. Symbolically a constant; natively the current second, so that the two
// replicas can really run before and after the expiry instant T0+2s (replica B sleeps past it).
var c07T0 = int64(1700000000) * 1e9

func (r *c07Replica) prestate() {
	db := r.sm.store
	// a KV, a hash, a list, a set and a zset that all expire at T0+2s
	vsym.Assert(db.SetEx(c07T0, []byte("t:k"), 2, []byte("12")) == nil, "pre SETEX")
	_, err := db.HSet(c07T0, false, []byte("t:h"), []byte("f"), []byte("1"))
	vsym.Assert(err == nil, "pre HSET")
	n, err := db.HExpire(c07T0, []byte("t:h"), 2)
	vsym.Assert(err == nil && n == 1, "pre HEXPIRE")
	_, err = db.RPush(c07T0, []byte("t:l"), []byte("a"))
	vsym.Assert(err == nil, "pre RPUSH")
	_, err = db.SAdd(c07T0, []byte("t:s"), []byte("m"))
	vsym.Assert(err == nil, "pre SADD")
	_, err = db.ZAdd(c07T0, []byte("t:z"), common.ScorePair{Score: 1, Member: []byte("m")})
	vsym.Assert(err == nil, "pre ZADD")
	// the list, the set and the zset expire at T0+2s as well
	n, err = db.LExpire(c07T0, []byte("t:l"), 2)
	vsym.Assert(err == nil && n == 1, "pre LEXPIRE")
	n, err = db.SExpire(c07T0, []byte("t:s"), 2)
	vsym.Assert(err == nil && n == 1, "pre SEXPIRE")
	n, err = db.ZExpire(c07T0, []byte("t:z"), 2)
	vsym.Assert(err == nil && n == 1, "pre ZEXPIRE")
}

// c07Command: one well-formed write command (arities as the leader-side validators enforce them, C11).
func c07Command(tag string) [][]byte {
	b := func(s string) []byte { return []byte(s) }
	val := vsym.Bytes(tag+".val", 1)
	tmpl := [][][]byte{
		{b("set"), b("t:k"), val},
		{b("setex"), b("t:k"), b("3"), val},
		{b("del"), b("t:k")},
		{b("incr"), b("t:k")},
		{b("append"), b("t:k"), val},
		{b("getset"), b("t:k"), val},
		{b("setnx"), b("t:k"), val},
		{b("expire"), b("t:k"), b("3")},
		{b("persist"), b("t:k")},
		{b("hset"), b("t:h"), b("f"), val},
		{b("hmset"), b("t:h"), b("g"), val},
		{b("hdel"), b("t:h"), b("f")},
		{b("hincrby"), b("t:h"), b("f"), b("2")},
		{b("hexpire"), b("t:h"), b("3")},
		{b("hclear"), b("t:h")},
		{b("lpush"), b("t:l"), val},
		{b("rpop"), b("t:l")},
		{b("sadd"), b("t:s"), val},
		{b("srem"), b("t:s"), b("m")},
		{b("zadd"), b("t:z"), b("2"), val},
		{b("zincrby"), b("t:z"), b("1"), b("m")},
		{b("zrem"), b("t:z"), b("m")},
		{b("del"), b("t:j"), b("t:k")}, // the per-partition form of a multi-key DEL
		{b("set"), b("t:j"), val},
		{b("hmset"), b("t:h"), b("f"), val},
		{b("spop"), b("t:s")},
		{b("lpop"), b("t:l")},
		{b("sclear"), b("t:s")},
		{b("lclear"), b("t:l")},
		{b("zclear"), b("t:z")},
		{b("zremrangebyrank"), b("t:z"), b("0"), b("0")},
		{b("zremrangebyscore"), b("t:z"), b("0"), b("5")},
		{b("ltrim"), b("t:l"), b("0"), b("0")},
		{b("lset"), b("t:l"), b("0"), val},
		{b("spersist"), b("t:s")},
		{b("zexpire"), b("t:z"), b("3")},
	}
	return tmpl[vsym.Choose(tag, len(tmpl))]
}

func c07Entry(id uint64, ts int64, args [][]byte) BatchInternalRaftRequest {
	return BatchInternalRaftRequest{ReqNum: 1, Timestamp: ts,
		Reqs: []InternalRaftRequest{{Header: RequestHeader{ID: id, DataType: int32(RedisReq), Timestamp: ts}, Data: common.BuildCommand(args).Raw}}}
}

func c07SameReply(a, b interface{}) bool {
	switch x := a.(type) {
	case nil:
		return b == nil
	case error:
		y, ok := b.(error)
		return ok && y != nil && (x == nil) == (y == nil)
	case int64:
		y, ok := b.(int64)
		return ok && x == y
	case int:
		y, ok := b.(int)
		return ok && x == y
	case bool:
		y, ok := b.(bool)
		return ok && x == y
	case string:
		y, ok := b.(string)
		return ok && x == y
	case []byte:
		y, ok := b.([]byte)
		return ok && (x == nil) == (y == nil) && len(x) == len(y) && vsym.BytesEq(x, y)
	case float64:
		y, ok := b.(float64)
		return ok && x == y
	case [][]byte:
		y, ok := b.([][]byte)
		if !ok || len(x) != len(y) {
			return false
		}
		same := true
		for i := range x {
			same = same && len(x[i]) == len(y[i]) && vsym.BytesEq(x[i], y[i])
		}
		return same
	}
	vsym.Assert(false, "reply type not handled by the comparison")
	return false
}

func Verif_C07_ApplyDeterminism() {
	a, b := c07Open(), c07Open()
	defer a.done()
	defer b.done()
	if !vsym.Symbolic() {
		c07T0 = time.Now().Unix() * 1e9
	}
	vsym.FreezeClock(c07T0)
	a.prestate()
	b.prestate()
	c1, c2 := c07Command("cmd1"), c07Command("cmd2")
	// log timestamps: anywhere in the 4 seconds after the pre-state (the expiry instant T0+2s included), non-decreasing
	d1 := vsym.I64("d1")
	vsym.Assume(d1 >= 0 && d1 < int64(4e9))
	d2 := vsym.I64("d2")
	vsym.Assume(d2 >= d1 && d2 < int64(8e9))
	ts1, ts2 := c07T0+d1, c07T0+d2
	e1, e2 := c07Entry(1, ts1, c1), c07Entry(2, ts2, c2)
	// replica A: clock far before every expiry, live apply, one apply batch per entry
	vsym.FreezeClock(c07T0 - int64(3600e9))
	ba := a.sm.GetBatchOperator()
	_, err := a.sm.ApplyRaftRequest(false, ba, e1, 1, 1, nil)
	vsym.Assert(err == nil, "apply")
	ba.CommitBatch()
	ba = a.sm.GetBatchOperator()
	_, err = a.sm.ApplyRaftRequest(false, ba, e2, 1, 2, nil)
	vsym.Assert(err == nil, "apply")
	ba.CommitBatch()
	// replica B: clock far after every expiry, replay, both entries in one apply batch
	vsym.FreezeClock(c07T0 + int64(86400e9))
	if !vsym.Symbolic() {
		for time.Now().UnixNano() < c07T0+int64(3200e6) {
			time.Sleep(50 * time.Millisecond)
		}
	}
	replay := vsym.Choose("replay", 2) == 1
	bb := b.sm.GetBatchOperator()
	_, err = b.sm.ApplyRaftRequest(replay, bb, e1, 1, 1, nil)
	vsym.Assert(err == nil, "apply")
	_, err = b.sm.ApplyRaftRequest(replay, bb, e2, 1, 2, nil)
	vsym.Assert(err == nil, "apply")
	bb.CommitBatch()
	// replies
	for id := uint64(1); id <= 2; id++ {
		ra, oka := a.w.byID[id]
		rb, okb := b.w.byID[id]
		vsym.Assert(oka && okb, "every request is answered on both replicas")
		vsym.Assert(c07SameReply(ra, rb), "the reply to a write does not depend on clock, batching or replay")
	}
	// data
	if vsym.Symbolic() {
		ka, va := a.vdb.Snapshot()
		kb, vb := b.vdb.Snapshot()
		vsym.Assert(len(ka) == len(kb), "both replicas hold the same number of raw keys")
		for i := range ka {
			if i < len(kb) {
				vsym.Assert(len(ka[i]) == len(kb[i]) && vsym.BytesEq(ka[i], kb[i]), "both replicas hold the same raw keys")
				vsym.Assert(len(va[i]) == len(vb[i]) && vsym.BytesEq(va[i], vb[i]), "both replicas hold the same raw values")
			}
		}
	} else {
		// natively (pebble): compare through reads at a common clock
		for _, k := range []string{"t:k"} {
			x, _ := a.sm.store.KVGet([]byte(k))
			y, _ := b.sm.store.KVGet([]byte(k))
			vsym.Assert(string(x) == string(y), "same KV value on both replicas")
		}
		n1, _ := a.sm.store.HLen([]byte("t:h"))
		n2, _ := b.sm.store.HLen([]byte("t:h"))
		vsym.Assert(n1 == n2, "same hash size on both replicas")
	}
	vsym.Reach("end")
}
