//go:build verif

package node

import (
	"github.com/absolute8511/redcon"
	"github.com/youzan/ZanRedisDB/common"
	"github.com/youzan/ZanRedisDB/pkg/wait"
	"github.com/youzan/ZanRedisDB/rockredis"
	"vsym"
)

// C11 - no client input can crash a replica or leave a partial write behind.
// The command goes the way a client's command goes: leader-side validator (the registered
// wrapWriteCommand* closure) -> proposal bytes -> kvStoreSM.ApplyRaftRequest (redcon.Parse, handler
// lookup, local*Command) on the KV model store. Any Go panic that reaches the harness is a violation.

// ---- environment: the raft proposal is captured instead of queued ----

var c11Proposed [][]byte

func VerifModel_node_KVNode_RedisProposeAsync(nd *KVNode, buf []byte) (*FutureRsp, error) {
	c11Proposed = append(c11Proposed, append([]byte{}, buf...))
	return &FutureRsp{}, nil
}

func VerifModel_node_KVNode_RedisV2ProposeAsync(nd *KVNode, buf []byte) (*FutureRsp, error) {
	c11Proposed = append(c11Proposed, append([]byte{}, buf...))
	return &FutureRsp{}, nil
}

type c11Wait struct {
	wait.Wait
	errs []error
	vals []interface{}
}

func (w *c11Wait) Trigger(id uint64, x interface{}) {
	if e, ok := x.(error); ok && e != nil {
		w.errs = append(w.errs, e)
	} else {
		w.vals = append(w.vals, x)
	}
}
func (w *c11Wait) IsRegistered(id uint64) bool { return false }

type c11Env struct {
	sm   *kvStoreSM
	nd   *KVNode
	w    *c11Wait
	vdb  *rockredis.VerifDB
	done func()
}

func c11Open() *c11Env {
	db, vdb := rockredis.VerifOpenDB()
	w := &c11Wait{}
	sm := &kvStoreSM{fullNS: "ns-0", store: &KVStore{RockDB: db, opts: &KVOptions{}}, router: common.NewSMCmdRouter(), cRouter: NewConflictRouter(),
		w: w}
	sm.registerHandlers()
	nd := &KVNode{router: common.NewCmdRouter(), machineConfig: &MachineConfig{}, sm: sm, store: sm.store}
	nd.registerHandler()
	return &c11Env{sm: sm, nd: nd, w: w, vdb: vdb, done: vdb.Close}
}

// write commands under test (registered names), grouped by what kind of arguments they take
var c11Cmds = []string{
	"set", "setnx", "getset", "append", "setrange", "incr", "incrby", "setex", "expire", "persist", "setbit", "setbitv2", "bitclear",
	"hset", "hsetnx", "hmset", "hdel", "hincrby", "hclear", "hexpire", "hpersist",
	"lpush", "rpush", "lpop", "rpop", "lset", "ltrim", "lclear", "lexpire", "lpersist",
	"sadd", "srem", "spop", "sclear", "sexpire", "spersist",
	"zadd", "zincrby", "zrem", "zremrangebyrank", "zremrangebyscore", "zremrangebylex", "zclear", "zexpire", "zpersist",
}

// c11Arg: an argument a client can send: a short arbitrary byte string (so "-1", "ab", "", "1e" ... are all covered)
func c11Arg(maxLen int) []byte {
	return vsym.Bytes("arg", vsym.Choose("arglen", maxLen+1))
}

// c11Prestate puts something under the addressed key first (through the real commands).
func c11Prestate(e *c11Env, key []byte) {
	db := e.sm.store
	ts := int64(1700000000) * 1e9
	n := 2
	if vsym.Thorough() {
		n = 4
	}
	switch vsym.Choose("prestate", n) {
	case 1:
		db.KVSet(ts, key, []byte("12"))
		db.HSet(ts, false, key, []byte("f"), []byte("1"))
		db.RPush(ts, key, []byte("a"), []byte("b"))
		db.SAdd(ts, key, []byte("m"))
		db.ZAdd(ts, key, common.ScorePair{Score: 1, Member: []byte("m")})
	case 2:
		db.RPush(ts, key, []byte("a"))
		db.SAdd(ts, key, []byte("1"))
	case 3:
		db.ZAdd(ts, key, common.ScorePair{Score: 1, Member: []byte("m")})
		db.KVSet(ts, key, []byte("ab"))
	}
}

func Verif_C11_WriteCommands_NoPanic_NoPartialWrite() {
	e := c11Open()
	defer e.done()
	name := c11Cmds[vsym.Choose("cmd", len(c11Cmds))]
	key := []byte("t:k")
	c11Prestate(e, key)
	argc := vsym.Choose("argc", 4) // 0..3 arguments after the key
	args := [][]byte{[]byte(name), append([]byte("ns:"), key...)}
	floatPool := []string{"1", "-1", "1.5", "inf", "-inf", "(1", "a", "", "nan", "1e400"}
	for i := 0; i < argc; i++ {
		// arguments parsed as floating point numbers come from a pool of interesting spellings (parsing
		// symbolic bytes with strconv.ParseFloat is out of the solver's reach)
		isFloat := (name == "zadd" && i%2 == 0) || (name == "zincrby" && i == 0) || (name == "zremrangebyscore")
		if isFloat {
			args = append(args, []byte(floatPool[vsym.Choose("floatarg", len(floatPool))]))
			continue
		}
		// quick: first argument 0..2 bytes, second 0..1, third exactly 1; thorough: every argument 0..2 bytes
		switch {
		case vsym.Thorough() || i == 0:
			args = append(args, c11Arg(2))
		case i == 1:
			args = append(args, c11Arg(1))
		default:
			args = append(args, vsym.Bytes("arg", 1))
		}
	}
	// ---- leader side ----
	c11Proposed = nil
	var raw []byte
	if vsym.Symbolic() {
		h, ok := e.nd.router.GetWCmdHandler(name)
		vsym.Assert(ok, "command is registered on the leader side")
		h(common.BuildCommand(args))
		if len(c11Proposed) > 0 {
			raw = c11Proposed[0]
		}
	}
	if !vsym.NoteBool("proposed", len(c11Proposed) > 0) {
		// rejected by validation (or answered without a proposal): nothing reaches the log
		vsym.Reach("rejected")
		vsym.Reach("end")
		return
	}
	if !vsym.Symbolic() {
		// native replay: the proposal path cannot run; rebuild the proposal bytes the way rebuildFirstKeyAndPropose does
		cut := append([][]byte{}, args...)
		cut[1] = key
		raw = common.BuildCommand(cut).Raw
	}
	// ---- apply side: the committed entry is applied by every replica ----
	keys0, vals0 := e.vdb.Snapshot()
	writes0 := e.vdb.Writes()
	req := BatchInternalRaftRequest{ReqNum: 1, Timestamp: int64(1700000100) * 1e9,
		Reqs: []InternalRaftRequest{{Header: RequestHeader{ID: 1, DataType: int32(RedisReq)}, Data: raw}}}
	batch := &kvbatchOperator{kvsm: e.sm, dupCheckMap: map[string]bool{}}
	_, err := e.sm.ApplyRaftRequest(false, batch, req, 1, 1, nil)
	batch.CommitBatch()
	vsym.Assert(err == nil, "apply returns no fatal error")
	vsym.Reach("applied")
	if vsym.Symbolic() {
		vsym.Assert(e.vdb.PendingBatchOps() == 0, "nothing is left in the shared write batch after the command")
		if len(e.w.errs) > 0 {
			// a command that returned an error changes nothing
			keys1, vals1 := e.vdb.Snapshot()
			same := len(keys0) == len(keys1)
			if same {
				for i := range keys0 {
					if len(keys0[i]) != len(keys1[i]) || len(vals0[i]) != len(vals1[i]) {
						same = false
						break
					}
					same = vsym.And(same, vsym.And(vsym.BytesEq(keys0[i], keys1[i]), vsym.BytesEq(vals0[i], vals1[i])))
				}
			}
			vsym.Assert(same, "a command that returns an error leaves the store unchanged")
			_ = writes0
			vsym.Reach("errored")
		}
	}
	vsym.Reach("end")
}

var _ redcon.Command
