//go:build verif

package node

import (
	"github.com/absolute8511/redcon"
	"github.com/youzan/ZanRedisDB/common"
	"github.com/youzan/ZanRedisDB/pkg/wait"
	"github.com/youzan/ZanRedisDB/rockredis"
	"vsym"
)

// C11 - no client input can crash a replica or leave a partial write behind.
// The command goes the way a client's command goes: leader-side validator (the registered
// wrapWriteCommand* closure) -> proposal bytes -> kvStoreSM.ApplyRaftRequest (redcon.Parse, handler
// lookup, local*Command) on the KV model store. Any Go panic that reaches the harness is a violation.

// ---- environment: the raft proposal is captured instead of queued ----

var c11Proposed [][]byte

func VerifModel_node_KVNode_RedisProposeAsync(nd *KVNode, buf []byte) (*FutureRsp, error) {
	c11Proposed = append(c11Proposed, append([]byte{}, buf...))
	return &FutureRsp{}, nil
}

func VerifModel_node_KVNode_RedisV2ProposeAsync(nd *KVNode, buf []byte) (*FutureRsp, error) {
	c11Proposed = append(c11Proposed, append([]byte{}, buf...))
	return &FutureRsp{}, nil
}

type c11Wait struct {
	wait.Wait
	errs []error
	vals []interface{}
}

func (w *c11Wait) Trigger(id uint64, x interface{}) {
	if e, ok := x.(error); ok && e != nil {
		w.errs = append(w.errs, e)
	} else {
		w.vals = append(w.vals, x)
	}
}
func (w *c11Wait) IsRegistered(id uint64) bool { return false }

type c11Env struct {
	sm   *kvStoreSM
	nd   *KVNode
	w    *c11Wait
	vdb  *rockredis.VerifDB
	done func()
}

func c11Open() *c11Env {
	db, vdb := rockredis.VerifOpenDB()
	w := &c11Wait{}
	sm := &kvStoreSM{fullNS: "ns-0", store: &KVStore{RockDB: db, opts: &KVOptions{EngType: rockredis.EngType}}, router: common.NewSMCmdRouter(), cRouter: NewConflictRouter(),
		w: w}
	sm.registerHandlers()
	nd := &KVNode{router: common.NewCmdRouter(), machineConfig: &MachineConfig{}, sm: sm, store: sm.store}
	nd.registerHandler()
	return &c11Env{sm: sm, nd: nd, w: w, vdb: vdb, done: vdb.Close}
}

// write commands under test (registered names), grouped by what kind of arguments they take
var c11Cmds = []string{
	"set", "setnx", "getset", "append", "setrange", "incr", "incrby", "setex", "expire", "persist", "setbit", "setbitv2", "bitclear",
	"hset", "hsetnx", "hmset", "hdel", "hincrby", "hclear", "hexpire", "hpersist",
	"lpush", "rpush", "lpop", "rpop", "lset", "ltrim", "lclear", "lexpire", "lpersist",
	"sadd", "srem", "spop", "sclear", "sexpire", "spersist",
	"zadd", "zincrby", "zrem", "zremrangebyrank", "zremrangebyscore", "zremrangebylex", "zclear", "zexpire", "zpersist",
}

// c11Arg: an argument a client can send: a short arbitrary byte string (so "-1", "ab", "", "1e" ... are all covered)
func c11Arg(maxLen int) []byte {
	return vsym.Bytes("arg", vsym.Choose("arglen", maxLen+1))
}

// c11Prestate puts something under the addressed key first (through the real commands).
func c11Prestate(e *c11Env, key []byte) {
	db := e.sm.store
	ts := int64(1700000000) * 1e9
	n := 2
	if vsym.Thorough() {
		n = 4
	}
	switch vsym.Choose("prestate", n) {
	case 1:
		db.KVSet(ts, key, []byte("12"))
		db.HSet(ts, false, key, []byte("f"), []byte("1"))
		db.RPush(ts, key, []byte("a"), []byte("b"))
		db.SAdd(ts, key, []byte("m"))
		db.ZAdd(ts, key, common.ScorePair{Score: 1, Member: []byte("m")})
	case 2:
		db.RPush(ts, key, []byte("a"))
		db.SAdd(ts, key, []byte("1"))
	case 3:
		db.ZAdd(ts, key, common.ScorePair{Score: 1, Member: []byte("m")})
		db.KVSet(ts, key, []byte("ab"))
	}
}

func Verif_C11_WriteCommands_NoPanic_NoPartialWrite() {
	vsym.FreezeClock(int64(1700000200) * 1e9) // wall-clock time only feeds slow-logs and latency metrics here
	e := c11Open()
	defer e.done()
	name := c11Cmds[vsym.Choose("cmd", len(c11Cmds))]
	key := []byte("t:k")
	c11Prestate(e, key)
	argc := vsym.Choose("argc", 4) // 0..3 arguments after the key
	args := [][]byte{[]byte(name), append([]byte("ns:"), key...)}
	floatPool := []string{"1", "-1", "1.5", "inf", "-inf", "(1", "a", "", "nan", "1e400"}
	for i := 0; i < argc; i++ {
		// arguments parsed as floating point numbers come from a pool of interesting spellings (parsing
		// symbolic bytes with strconv.ParseFloat is out of the solver's reach)
		isFloat := (name == "zadd" && i%2 == 0) || (name == "zincrby" && i == 0) || (name == "zremrangebyscore")
		if isFloat {
			args = append(args, []byte(floatPool[vsym.Choose("floatarg", len(floatPool))]))
			continue
		}
		// quick: first argument 0..2 bytes, second 0..1, third exactly 1; thorough: every argument 0..2 bytes
		switch {
		case vsym.Thorough() || i == 0:
			args = append(args, c11Arg(2))
		case i == 1:
			args = append(args, c11Arg(1))
		default:
			args = append(args, vsym.Bytes("arg", 1))
		}
	}
	// ---- leader side ----
	c11Proposed = nil
	var raw []byte
	if vsym.Symbolic() {
		h, ok := e.nd.router.GetWCmdHandler(name)
		vsym.Assert(ok, "command is registered on the leader side")
		h(common.BuildCommand(args))
		if len(c11Proposed) > 0 {
			raw = c11Proposed[0]
		}
	}
	if !vsym.NoteBool("proposed", len(c11Proposed) > 0) {
		// rejected by validation (or answered without a proposal): nothing reaches the log
		vsym.Reach("rejected")
		vsym.Reach("end")
		return
	}
	if !vsym.Symbolic() {
		// native replay: the proposal path cannot run; rebuild the proposal bytes the way rebuildFirstKeyAndPropose does
		cut := append([][]byte{}, args...)
		cut[1] = key
		raw = common.BuildCommand(cut).Raw
	}
	// ---- apply side: the committed entry is applied by every replica ----
	keys0, vals0 := e.vdb.Snapshot()
	writes0 := e.vdb.Writes()
	req := BatchInternalRaftRequest{ReqNum: 1, Timestamp: int64(1700000100) * 1e9,
		Reqs: []InternalRaftRequest{{Header: RequestHeader{ID: 1, DataType: int32(RedisReq)}, Data: raw}}}
	batch := &kvbatchOperator{kvsm: e.sm, dupCheckMap: map[string]bool{}}
	_, err := e.sm.ApplyRaftRequest(false, batch, req, 1, 1, nil)
	batch.CommitBatch()
	vsym.Assert(err == nil, "apply returns no fatal error")
	vsym.Reach("applied")
	if vsym.Symbolic() {
		vsym.Assert(e.vdb.PendingBatchOps() == 0, "nothing is left in the shared write batch after the command")
		if len(e.w.errs) > 0 {
			// a command that returned an error changes nothing
			keys1, vals1 := e.vdb.Snapshot()
			same := len(keys0) == len(keys1)
			if same {
				for i := range keys0 {
					if len(keys0[i]) != len(keys1[i]) || len(vals0[i]) != len(vals1[i]) {
						same = false
						break
					}
					same = vsym.And(same, vsym.And(vsym.BytesEq(keys0[i], keys1[i]), vsym.BytesEq(vals0[i], vals1[i])))
				}
			}
			vsym.Assert(same, "a command that returns an error leaves the store unchanged")
			_ = writes0
			vsym.Reach("errored")
		}
	}
	vsym.Reach("end")
}

var _ redcon.Command

func VerifModel_node_KVNode_RedisPropose(nd *KVNode, buf []byte) (interface{}, error) {
	c11Proposed = append(c11Proposed, append([]byte{}, buf...))
	return nil, nil
}

// c11KeyShape: a key with or without table separator, empty table or empty key part; one arbitrary byte.
func c11KeyShape(symbolic bool) []byte {
	b := []byte{'b'}
	if symbolic {
		b = vsym.Bytes("key", 1)
	}
	switch vsym.Choose("keyshape", 5) {
	case 0:
		return []byte{}
	case 1:
		return b // no separator unless the byte is ':'
	case 2:
		return append([]byte("t:"), b...)
	case 3:
		return append([]byte(":"), b...)
	default:
		return []byte("t:")
	}
}

// Multi-key writes (the per-partition sub-commands the server builds for MSET/DEL: plset, del): a later
// element that fails at apply time must not leave the earlier elements behind - neither in the store nor
// in the shared write batch, where the next command would commit them.
func Verif_C11_MultiKey_NoPartialWrite() {
	vsym.FreezeClock(int64(1700000200) * 1e9) // wall-clock time only feeds slow-logs and latency metrics here
	e := c11Open()
	defer e.done()
	names := []string{"plset", "del"}
	name := names[vsym.Choose("cmd", len(names))]
	ts := int64(1700000000) * 1e9
	if vsym.Choose("prestate", 2) == 1 {
		e.sm.store.KVSet(ts, []byte("t:a"), []byte("0"))
	}
	nkeys := 2 + vsym.Choose("nkeys", 2)
	args := [][]byte{[]byte(name)}
	var keys [][]byte
	for i := 0; i < nkeys; i++ {
		var k []byte
		if i == 0 && vsym.Choose("firstvalid", 2) == 1 {
			k = []byte("t:a")
		} else {
			k = c11KeyShape(true)
		}
		keys = append(keys, k)
		if i == nkeys-1 && vsym.Choose("nonamespace", 2) == 1 {
			args = append(args, []byte("nons")) // no namespace separator: rejected before anything is proposed
		} else {
			args = append(args, append([]byte("ns:"), k...))
		}
		if name == "plset" {
			args = append(args, vsym.Bytes("val", 1))
		}
	}
	// ---- leader side ----
	c11Proposed = nil
	var raw []byte
	if vsym.Symbolic() {
		h, _, ok := e.nd.router.GetMergeCmdHandler(name)
		vsym.Assert(ok, "command is registered on the leader side")
		cp := make([][]byte, len(args))
		for i := range args {
			cp[i] = append([]byte{}, args[i]...)
		}
		h(common.BuildCommand(cp))
		if len(c11Proposed) > 0 {
			raw = c11Proposed[0]
		}
	}
	if !vsym.NoteBool("proposed", len(c11Proposed) > 0) {
		vsym.Reach("rejected")
		vsym.Reach("end")
		return
	}
	if !vsym.Symbolic() {
		cut := [][]byte{[]byte(name)}
		ki := 0
		for i := 1; i < len(args); i++ {
			if name == "del" || i%2 == 1 {
				cut = append(cut, keys[ki])
				ki++
			} else {
				cut = append(cut, args[i])
			}
		}
		raw = common.BuildCommand(cut).Raw
	}
	// ---- apply side, with the batch operator living across entries as in the node's apply loop ----
	keys0, vals0 := e.vdb.Snapshot()
	batch := &kvbatchOperator{kvsm: e.sm, dupCheckMap: map[string]bool{}}
	req := BatchInternalRaftRequest{ReqNum: 1, Timestamp: ts + 100e9,
		Reqs: []InternalRaftRequest{{Header: RequestHeader{ID: 1, DataType: int32(RedisReq)}, Data: raw}}}
	_, err := e.sm.ApplyRaftRequest(false, batch, req, 1, 1, nil)
	batch.CommitBatch()
	vsym.Assert(err == nil, "apply returns no fatal error")
	failed := len(e.w.errs) > 0
	if vsym.Symbolic() {
		vsym.Assert(e.vdb.PendingBatchOps() == 0, "nothing is left in the shared write batch after the command")
	}
	// the next, unrelated command (not batchable: commits the shared write batch by itself)
	req2 := BatchInternalRaftRequest{ReqNum: 1, Timestamp: ts + 101e9,
		Reqs: []InternalRaftRequest{{Header: RequestHeader{ID: 2, DataType: int32(RedisReq)}, Data: common.BuildCommand([][]byte{[]byte("incr"), []byte("u:zz")}).Raw}}}
	_, err = e.sm.ApplyRaftRequest(false, batch, req2, 1, 2, nil)
	batch.CommitBatch()
	vsym.Assert(err == nil, "second apply returns no fatal error")
	if failed {
		// everything the store had before is still there unchanged, and the only new key is the second command's
		for i := range keys0 {
			v, _ := e.sm.store.GetBytes(keys0[i])
			vsym.Assert(v != nil && len(v) == len(vals0[i]) && vsym.BytesEq(v, vals0[i]), "a failed multi-key write leaves existing keys unchanged")
		}
		for i := range keys {
			if len(keys[i]) == 3 && vsym.And(keys[i][0] == 't', vsym.And(keys[i][1] == ':', keys[i][2] != 'a')) && true {
				v, _ := e.sm.store.KVGet(keys[i])
				vsym.Assert(v == nil, "no element of a failed multi-key write becomes visible after the next command")
			}
		}
		if string(keys[0]) == "t:a" {
			v, _ := e.sm.store.KVGet(keys[0])
			if len(keys0) == 0 {
				vsym.Assert(v == nil, "the first element of a failed multi-key write is not visible after the next command")
			} else {
				vsym.Assert(len(v) == 1 && v[0] == '0', "the first element of a failed multi-key write keeps its old value")
			}
		}
		vsym.Reach("failed")
	}
	vsym.Reach("end")
}

// Boundary integers: every argument position of every write command takes each of these spellings once
// (the other arguments are "1"): overflow of offset/length/count arithmetic must not panic on apply.
var c11WideInts = []string{"9223372036854775807", "-9223372036854775808", "9223372036854775808", "4294967296", "2147483648", "-2147483649", "18446744073709551615", "536870912"}

func Verif_C11_BoundaryIntegers_NoPanic() {
	vsym.FreezeClock(int64(1700000200) * 1e9)
	e := c11Open()
	defer e.done()
	name := c11Cmds[vsym.Choose("cmd", len(c11Cmds))]
	key := []byte("t:k")
	c11Prestate(e, key)
	argc := 1 + vsym.Choose("argc", 3) // 1..3 arguments after the key
	pos := vsym.Choose("widepos", 3)
	wide := c11WideInts[vsym.Choose("wideval", len(c11WideInts))]
	args := [][]byte{[]byte(name), append([]byte("ns:"), key...)}
	for i := 0; i < argc; i++ {
		if i == pos {
			args = append(args, []byte(wide))
		} else {
			args = append(args, []byte("1"))
		}
	}
	c11Proposed = nil
	var raw []byte
	if vsym.Symbolic() {
		h, ok := e.nd.router.GetWCmdHandler(name)
		vsym.Assert(ok, "command is registered on the leader side")
		h(common.BuildCommand(args))
		if len(c11Proposed) > 0 {
			raw = c11Proposed[0]
		}
	}
	if !vsym.NoteBool("proposed", len(c11Proposed) > 0) {
		vsym.Reach("rejected")
		vsym.Reach("end")
		return
	}
	if !vsym.Symbolic() {
		cut := append([][]byte{}, args...)
		cut[1] = key
		raw = common.BuildCommand(cut).Raw
	}
	req := BatchInternalRaftRequest{ReqNum: 1, Timestamp: int64(1700000100) * 1e9,
		Reqs: []InternalRaftRequest{{Header: RequestHeader{ID: 1, DataType: int32(RedisReq)}, Data: raw}}}
	batch := &kvbatchOperator{kvsm: e.sm, dupCheckMap: map[string]bool{}}
	_, err := e.sm.ApplyRaftRequest(false, batch, req, 1, 1, nil)
	batch.CommitBatch()
	vsym.Assert(err == nil, "apply returns no fatal error")
	if vsym.Symbolic() {
		vsym.Assert(e.vdb.PendingBatchOps() == 0, "nothing is left in the shared write batch after the command")
	}
	vsym.Reach("applied")
	vsym.Reach("end")
}
