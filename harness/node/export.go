//go:build verif

package node

import "github.com/youzan/ZanRedisDB/common"

// helpers for harnesses in package server

// VerifMergeNode builds a ready partition node whose merge commands are answered by h.
func VerifMergeNode(fullName string, h common.MergeCommandFunc) *NamespaceNode {
	nd := &KVNode{router: common.NewCmdRouter(), rn: &raftNode{config: &RaftConfig{ID: 1}, lead: 1}}
	nd.router.RegisterWriteMerge("del", h)
	nd.router.RegisterWriteMerge("plset", h)
	nd.router.RegisterMerge("exists", h)
	return &NamespaceNode{Node: nd, conf: &NamespaceConfig{Name: fullName}, ready: 1}
}

func VerifMgr(ns string, pnum int, nodes []*NamespaceNode) *NamespaceMgr {
	mgr := &NamespaceMgr{kvNodes: map[string]*NamespaceNode{}, nsMetas: map[string]*NamespaceMeta{}, groups: map[uint64]string{}}
	mgr.nsMetas[ns] = &NamespaceMeta{PartitionNum: pnum}
	for _, n := range nodes {
		mgr.kvNodes[n.FullName()] = n
	}
	return mgr
}
