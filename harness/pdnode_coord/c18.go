//go:build verif

package pdnode_coord

import (
	"github.com/youzan/ZanRedisDB/cluster"
	"vsym"
)

// C18 - replica migration never drops a partition below a safe quorum: one-step invariant of each
// coordinator decision from any valid metadata, any liveness and any sync answers.

var c18Nodes = []string{"a", "b", "c", "d", "e", "spare"}

// ---- environment models (symbolic run): answers of data nodes and of the allocator ----

func VerifModel_pdnode_coord_IsRaftNodeSynced(nsInfo *cluster.PartitionMetaInfo, nid string) (bool, error) {
	c18Asked = true
	if vsym.Bool("synced") {
		return true, nil
	}
	c18AnyNotSynced = true
	return false, nil
}

func VerifModel_pdnode_coord_IsAllISRFullReady(nsInfo *cluster.PartitionMetaInfo) (bool, error) {
	c18Ready = vsym.Bool("allready")
	return c18Ready, nil
}

func VerifModel_pdnode_coord_IsRaftNodeJoined(nsInfo *cluster.PartitionMetaInfo, nid string) (bool, error) {
	return vsym.Bool("joined"), nil
}

// contract of allocNodeForNamespace (discharged on the real function by the C17 harness family):
// a live node that is not already a replica, or an error.
func VerifModel_pdnode_coord_DataPlacement_allocNodeForNamespace(dp *DataPlacement, nsInfo *cluster.PartitionMetaInfo,
	currentNodes map[string]cluster.NodeInfo) (*cluster.NodeInfo, *cluster.CoordErr) {
	if _, ok := currentNodes["spare"]; ok && vsym.Choose("alloc", 2) == 0 {
		for _, n := range nsInfo.RaftNodes {
			if n == "spare" {
				return nil, ErrNodeUnavailable
			}
		}
		ni := currentNodes["spare"]
		return &ni, nil
	}
	return nil, ErrNodeUnavailable
}

var c18Asked, c18AnyNotSynced, c18Ready bool

type c18Write struct {
	info     cluster.PartitionReplicaInfo
	oldEpoch cluster.EpochType
}

type c18Register struct {
	cluster.PDRegister
	writes []c18Write
	fail   bool
}

func (r *c18Register) UpdateNamespacePartReplicaInfo(ns string, partition int, replicaInfo *cluster.PartitionReplicaInfo, oldGen cluster.EpochType) error {
	r.writes = append(r.writes, c18Write{replicaInfo.DeepClone(), oldGen})
	if r.fail {
		return cluster.ErrRegisterServiceUnstable.ToErrorType()
	}
	return nil
}

type c18State struct {
	info    *cluster.PartitionMetaInfo
	alive   map[string]cluster.NodeInfo
	nAlive  int // alive replicas
	reg     *c18Register
	coord   *PDCoordinator
	epoch   int64
	preMax  int64
	preRemv int
	k       int
}

// c18Setup builds arbitrary metadata satisfying RImeta and arbitrary liveness.
func c18Setup() *c18State {
	c18Asked, c18AnyNotSynced, c18Ready = false, false, false
	maxRep := 3
	if vsym.Thorough() {
		maxRep = 5
	}
	replica := 1 + vsym.Choose("replica", maxRep)
	k := replica - 1 + vsym.Choose("k", 3) // replicas present: replica-1, replica, replica+1
	if k < 1 || k > 5 {
		vsym.Assume(false)
	}
	info := &cluster.PartitionMetaInfo{Name: "ns", Partition: 0}
	info.Replica = replica
	info.PartitionNum = 1
	info.RaftIDs = map[string]uint64{}
	info.Removings = map[string]cluster.RemovingInfo{}
	info.MaxRaftID = vsym.I64("maxraftid")
	vsym.Assume(info.MaxRaftID >= 0 && info.MaxRaftID < 1<<40)
	for i := 0; i < k; i++ {
		n := c18Nodes[i]
		info.RaftNodes = append(info.RaftNodes, n)
		id := vsym.U64("raftid")
		vsym.Assume(id >= 1 && id <= uint64(info.MaxRaftID))
		for _, other := range info.RaftIDs {
			vsym.Assume(other != id)
		}
		info.RaftIDs[n] = id
	}
	// at most one pending removal, of a replica
	if rm := vsym.Choose("removing", k+1); rm > 0 {
		n := c18Nodes[rm-1]
		info.Removings[n] = cluster.RemovingInfo{RemoveTime: vsym.I64("removetime"), RemoveReplicaID: info.RaftIDs[n]}
	}
	epoch := vsym.I64("epoch")
	cluster.VerifSetReplicaEpoch(&info.PartitionReplicaInfo, epoch)
	st := &c18State{info: info, alive: map[string]cluster.NodeInfo{}, epoch: epoch, k: k, preMax: info.MaxRaftID, preRemv: len(info.Removings)}
	for i := 0; i < k; i++ {
		if vsym.Choose("alive", 2) == 1 {
			st.alive[c18Nodes[i]] = cluster.NodeInfo{ID: c18Nodes[i]}
			st.nAlive++
		}
	}
	if vsym.Choose("spare.alive", 2) == 1 {
		st.alive["spare"] = cluster.NodeInfo{ID: "spare"}
	}
	st.reg = &c18Register{fail: vsym.Choose("regfail", 2) == 1}
	st.coord = &PDCoordinator{register: st.reg}
	st.coord.dpm = NewDataPlacement(st.coord)
	return st
}

// c18CheckWritten: every info handed to the register satisfies RImeta and the safety clauses.
func c18CheckWritten(st *c18State, what string) {
	vsym.Assert(len(st.reg.writes) <= 1, what+": at most one metadata write per decision")
	for _, w := range st.reg.writes {
		in := w.info
		vsym.Assert(int64(w.oldEpoch) == st.epoch, what+": compare-and-swap uses the epoch that was read")
		vsym.Assert(len(in.Removings) <= 1, what+": at most one replica marked for removal")
		// RImeta
		for i, a := range in.RaftNodes {
			for j := 0; j < i; j++ {
				vsym.Assert(in.RaftNodes[j] != a, what+": replicas on distinct nodes")
			}
			id, ok := in.RaftIDs[a]
			vsym.Assert(ok, what+": every replica has a raft id")
			vsym.Assert(id >= 1 && int64(id) <= in.MaxRaftID, what+": raft ids are within MaxRaftID")
			for j := 0; j < i; j++ {
				vsym.Assert(in.RaftIDs[in.RaftNodes[j]] != id, what+": raft ids are not reused among replicas")
			}
		}
		for n := range in.Removings {
			found := false
			for _, a := range in.RaftNodes {
				if a == n {
					found = true
				}
			}
			vsym.Assert(found, what+": only replicas are marked for removal")
		}
		vsym.Assert(in.MaxRaftID >= st.preMax, what+": MaxRaftID only grows")
		vsym.Assert(len(in.RaftNodes) <= st.k+1, what+": at most one replica added per decision")
		if len(in.RaftNodes) == st.k+1 {
			newNode := in.RaftNodes[st.k]
			vsym.Assert(in.MaxRaftID == st.preMax+1 && in.RaftIDs[newNode] == uint64(st.preMax+1), what+": a new replica gets the fresh id MaxRaftID+1")
			vsym.Assert(st.preRemv == 0 && len(in.Removings) == 0, what+": a replica is added only while no removal is pending")
			vsym.Reach("added")
		}
		if len(in.Removings) > st.preRemv {
			remaining := len(in.RaftNodes) - len(in.Removings)
			vsym.Assert(remaining > st.info.Replica/2, what+": a newly marked removal leaves a strict majority of the replication factor")
			vsym.Reach("marked")
		}
	}
}

func Verif_C18_HandleNamespaceMigrate() {
	st := c18Setup()
	orig := st.info.GetCopy()
	err := st.coord.handleNamespaceMigrate(st.info, st.alive, 0)
	c18CheckWritten(st, "migrate")
	for _, w := range st.reg.writes {
		in := w.info
		if len(in.Removings) > st.preRemv {
			vsym.Assert(st.nAlive > orig.Replica/2, "migrate: no removal is marked when half or more of the replicas are unreachable")
			vsym.Assert(!c18AnyNotSynced, "migrate: no removal is marked while an alive replica reports not synced")
		}
		if len(in.RaftNodes) == st.k+1 {
			vsym.Assert(c18Ready, "migrate: a replica is added only when all current replicas report ready")
			_, live := st.alive[in.RaftNodes[st.k]]
			vsym.Assert(live, "migrate: the added replica is on a live node")
		}
	}
	if err != nil {
		// nothing changed for the caller
		vsym.Assert(len(st.info.RaftNodes) == len(orig.RaftNodes) && len(st.info.Removings) == len(orig.Removings) && st.info.MaxRaftID == orig.MaxRaftID, "migrate: an error leaves the caller's metadata unchanged")
	}
	vsym.Reach("end")
}

func Verif_C18_AddNamespaceToNode() {
	st := c18Setup()
	nid := c18Nodes[vsym.Choose("nid", len(c18Nodes))]
	orig := st.info.GetCopy()
	err := st.coord.addNamespaceToNode(st.info, nid)
	c18CheckWritten(st, "add")
	if err != nil {
		vsym.Assert(len(st.info.RaftNodes) == len(orig.RaftNodes) && st.info.MaxRaftID == orig.MaxRaftID, "add: an error leaves the caller's metadata unchanged")
	}
	vsym.Reach("end")
}

func Verif_C18_RemoveNamespaceFromNode() {
	st := c18Setup()
	nid := c18Nodes[vsym.Choose("nid", len(c18Nodes))]
	err := st.coord.removeNamespaceFromNode(st.info, nid)
	c18CheckWritten(st, "remove")
	_ = err
	vsym.Reach("end")
}

func Verif_C18_RemoveNamespaceFromRemovings() {
	st := c18Setup()
	st.coord.removeNamespaceFromRemovings(st.info)
	c18CheckWritten(st, "finish removal")
	for _, w := range st.reg.writes {
		vsym.Assert(len(w.info.RaftNodes) >= 1, "finish removal: the last replica is never removed")
		vsym.Assert(len(w.info.RaftNodes)-len(w.info.Removings) > st.info.Replica/2 || len(w.info.RaftNodes) >= st.k, "finish removal: what remains is a quorum of the replication factor")
	}
	vsym.Reach("end")
}
