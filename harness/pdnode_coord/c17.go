//go:build verif

package pdnode_coord

import (
	"strconv"

	"github.com/twmb/murmur3"
	"github.com/youzan/ZanRedisDB/cluster"
	"vsym"
)

// C17 - placement puts each partition's replicas on distinct, spread-out nodes.
// Topology is structural (Choose); the namespace hash offset is symbolic: murmur3.Sum32 is an
// uninterpreted function under gosym, so one run covers every namespace name.

// The namespace hash enters placement only through (hash + small) % len(nodes) with len(nodes) <= 6, and
// int(uint32) + small never overflows, so the layout is a function of hash mod lcm(1..6) = 60: letting the
// hash range over [0,60) is exhaustive for every namespace name. (Symbolic run only; natively the real
// murmur3 is used.)
var c17Hash uint32

func VerifModel_murmur3_Sum32(b []byte) uint32 { return c17Hash }

func c17SymHash() {
	c17Hash = vsym.U32("nshash")
	vsym.AssumeModel(c17Hash < 60)
}

// c17NS: the namespace name. Symbolically any name ("ns": its hash is the symbolic c17Hash); natively a name
// whose real murmur3 hash falls in the residue class (mod 60) the solver chose, so that counterexamples replay.
func c17NS() string {
	if vsym.Symbolic() {
		return "ns"
	}
	for i := 0; ; i++ {
		n := "ns" + strconv.Itoa(i)
		if murmur3.Sum32([]byte(n))%60 == c17Hash%60 {
			return n
		}
	}
}

var c17Names = []string{"n1", "n2", "n3", "n4", "n5", "n6"}

type c17Topo struct {
	n, dcs int
	even   bool
	nodes  map[string]cluster.NodeInfo
	dcOf   map[string]string
}

func c17DC(i int) string { return []string{"dcA", "dcB", "dcC"}[i] }

func c17Topology(maxN int) c17Topo {
	t := c17Topo{nodes: map[string]cluster.NodeInfo{}, dcOf: map[string]string{}}
	t.n = 1 + vsym.Choose("nodes", maxN)
	t.dcs = 1 + vsym.Choose("dcs", 3)
	t.even = vsym.Choose("even", 2) == 0
	for i := 0; i < t.n; i++ {
		dc := ""
		if t.dcs > 1 || vsym.Thorough() {
			if t.even {
				dc = c17DC(i % t.dcs)
			} else {
				// uneven: the first data centre gets all but (dcs-1) nodes
				k := i - (t.n - t.dcs)
				if k < 0 {
					k = 0
				}
				dc = c17DC(k)
			}
		}
		ni := cluster.NodeInfo{ID: c17Names[i], Tags: map[string]interface{}{}}
		if dc != "" {
			ni.Tags[cluster.DCInfoTag] = dc
		}
		t.nodes[c17Names[i]] = ni
		t.dcOf[c17Names[i]] = dc
	}
	return t
}

func c17CheckLayout(t c17Topo, res [][]string, pnum, replica int, what string) {
	vsym.Assert(len(res) == pnum, what+": one replica list per partition")
	for _, l := range res {
		vsym.Assert(len(l) == replica, what+": exactly the requested number of replicas")
		for i, a := range l {
			_, live := t.nodes[a]
			vsym.Assert(live, what+": every replica is on a live node")
			for j := 0; j < i; j++ {
				vsym.Assert(l[j] != a, what+": replicas of a partition are on distinct nodes")
			}
		}
	}
}

func c17Same(a, b [][]string) bool {
	if len(a) != len(b) {
		return false
	}
	for i := range a {
		if len(a[i]) != len(b[i]) {
			return false
		}
		for j := range a[i] {
			if a[i][j] != b[i][j] {
				return false
			}
		}
	}
	return true
}

func c17Sizes() (maxN, maxP int) {
	if vsym.Thorough() {
		return 6, 6
	}
	return 4, 4
}

// fresh layouts, both algorithms.
func Verif_C17_Fresh() {
	maxN, maxP := c17Sizes()
	c17SymHash()
	ver := []string{"v1", BalanceV2Str}[vsym.Choose("ver", 2)]
	t := c17Topology(maxN)
	pnum := 1 + vsym.Choose("partitions", maxP)
	replica := 1 + vsym.Choose("replica", 3)
	res, err := getRebalancedNamespacePartitions(c17NS(), pnum, replica, nil, t.nodes, ver)
	if t.n < replica {
		vsym.Assert(err == ErrNodeUnavailable, "too few nodes: refused")
		vsym.Assert(res == nil, "too few nodes: no degraded layout")
		vsym.Reach("refused")
		vsym.Reach("end")
		return
	}
	vsym.Assert(err == nil, "a layout is produced")
	c17CheckLayout(t, res, pnum, replica, "fresh "+ver)
	// determinism: same inputs, other map iteration order
	vsym.MapOrder(true)
	res2, err2 := getRebalancedNamespacePartitions(c17NS(), pnum, replica, nil, t.nodes, ver)
	vsym.MapOrder(false)
	vsym.Assert(err2 == nil && c17Same(res, res2), "layout is a function of its inputs (map iteration order does not matter)")
	// rack awareness: nodes evenly spread over at least as many data centres as replicas
	if t.even && t.dcs >= replica && t.n%t.dcs == 0 && t.dcs > 1 && ver == "v1" {
		for _, l := range res {
			for i := range l {
				for j := 0; j < i; j++ {
					vsym.Assert(t.dcOf[l[i]] != t.dcOf[l[j]], "v1: no two replicas of a partition share a data centre")
				}
			}
		}
		vsym.Reach("rack")
	}
	// leader balance for the ring algorithm
	if ver == "v1" && pnum%t.n == 0 {
		cnt := map[string]int{}
		for _, l := range res {
			cnt[l[0]]++
		}
		for name := range t.nodes {
			vsym.Assert(cnt[name] == pnum/t.n, "v1: every node leads equally many partitions when partitions are a multiple of nodes")
		}
		vsym.Reach("leaderbalance")
	}
	vsym.Reach("end")
}

// v2 with a previous layout: old = fresh layout, then any subset of nodes is lost at once and/or one node joins.
func Verif_C17_V2_Rebalance() {
	maxN, maxP := c17Sizes()
	c17SymHash()
	t := c17Topology(maxN)
	pnum := 1 + vsym.Choose("partitions", maxP)
	replica := 1 + vsym.Choose("replica", 3)
	if t.n < replica {
		vsym.Reach("end")
		return
	}
	old, err := getRebalancedNamespacePartitions(c17NS(), pnum, replica, nil, t.nodes, BalanceV2Str)
	vsym.Assert(err == nil, "fresh v2 layout")
	// change the node set: any subset of the nodes is lost at once (possibly none), and possibly one node joins
	for i := 0; i < len(c17Names); i++ {
		if _, ok := t.nodes[c17Names[i]]; ok && vsym.Choose("lost", 2) == 1 {
			delete(t.nodes, c17Names[i])
		}
	}
	if t.n < len(c17Names) && vsym.Choose("join", 2) == 1 {
		name := c17Names[t.n]
		t.nodes[name] = cluster.NodeInfo{ID: name, Tags: map[string]interface{}{}}
	}
	t.n = len(t.nodes)
	res, err := getRebalancedNamespacePartitions(c17NS(), pnum, replica, old, t.nodes, BalanceV2Str)
	if t.n < replica {
		vsym.Assert(err == ErrNodeUnavailable && res == nil, "too few nodes after the loss: refused")
		vsym.Reach("end")
		return
	}
	vsym.Assert(err == nil, "a layout is produced")
	c17CheckLayout(t, res, pnum, replica, "v2 rebalance")
	vsym.Reach("end")
}
